"""Shared machinery for shards: violations, statistics, exception bucketing, Hypothesis driver, replay files."""
import os
import sys
import json
import time
import hashlib
import traceback

VERIF = os.path.dirname(os.path.dirname(os.path.abspath(__file__)))


def jhash(obj):
    return hashlib.sha1(json.dumps(obj, sort_keys=True, default=str).encode()).hexdigest()[:16]


def viol(kind, detail='', sig=None, data=None):
    return {'kind': kind, 'sig': sig or kind, 'detail': str(detail)[:1500], 'data': data or {}}


def exc_sig(e):
    """(type, innermost frame inside adsg_core)"""
    tb = traceback.extract_tb(e.__traceback__)
    inner = None
    for fr in tb:
        fn = fr.filename.replace('\\', '/')
        if '/adsg_core/' in fn:
            inner = (fn.split('/adsg_core/', 1)[1], fr.name)
    if inner is None:
        return f'{type(e).__name__}@harness'
    return f'{type(e).__name__}@{inner[0]}:{inner[1]}'


def exc_viol(kind, e, extra=''):
    sig = exc_sig(e)
    if sig.endswith('@harness'):
        # An exception that never touched adsg_core is a harness bug, not a violation
        raise HarnessError(f'{type(e).__name__}: {e}\n{"".join(traceback.format_tb(e.__traceback__))}')
    return viol(kind, f'{extra} {type(e).__name__}: {e}', sig=f'{kind}:{sig}', data={'msg': str(e)[:300]})


class HarnessError(Exception):
    pass


class Result:
    def __init__(self):
        self.violations = []
        self.nontrivial = False
        self.classes = []
        self.sample = None
        self.evaluations = 1
        self.excluded = False   # excluded by bound
        self.key = None         # distinctness key (defaults to hash of case)

    def add(self, v):
        self.violations.append(v)


class Stats:
    def __init__(self, prop):
        self.prop = prop
        self.cases = 0
        self.evaluations = 0
        self.nontrivial = set()
        self.classes = {}
        self.samples = []
        self.known_hits = {}
        self.excluded_by_bound = 0
        self.violations = []   # list of {'kind','sig','detail','replay'}
        self.known_lines = []
        self.exhaustive_parts = []
        self.t0 = time.time()
        self.extra = {}

    def record(self, case, res, source):
        self.cases += 1
        self.evaluations += res.evaluations
        if res.excluded:
            self.excluded_by_bound += 1
        for c in res.classes:
            self.classes[c] = self.classes.get(c, 0)+1
        for k in getattr(res, 'keys', None) or []:
            self.nontrivial.add(k)
        if res.nontrivial:
            key = res.key or jhash(case)
            if key not in self.nontrivial and len(self.samples) < 4 and res.sample is not None:
                self.samples.append({'source': source, 'case': res.sample})
            self.nontrivial.add(key)

    def to_json(self):
        return {
            'prop': self.prop, 'cases': self.cases, 'evaluations': self.evaluations,
            'nontrivial': sorted(self.nontrivial), 'classes': self.classes, 'samples': self.samples,
            'known_hits': self.known_hits, 'excluded_by_bound': self.excluded_by_bound,
            'violations': self.violations, 'known_lines': self.known_lines, 'wall_s': time.time()-self.t0,
            'exhaustive_parts': self.exhaustive_parts, 'extra': self.extra,
        }


# ------------------------------------------------------------------------------------------------------------------
# known findings

def load_known(prop):
    path = os.path.join(VERIF, 'known_findings.json')
    if not os.path.exists(path):
        return []
    with open(path) as fp:
        data = json.load(fp)
    disabled = set((os.environ.get('VF_KF_DISABLE') or '').split(','))   # triage aid only
    return [f for f in data.get('findings', []) if prop in f.get('properties', []) and f['id'] not in disabled]


def attribute(prop, case, v, known):
    """Returns the id of the known finding this violation belongs to, or None"""
    from . import known as known_mod
    for f in known:
        kinds = f.get('kinds') or [f.get('kind')]
        if v['kind'] not in kinds and '*' not in kinds:
            continue
        pred = getattr(known_mod, f['class'])
        try:
            if pred(case, v):
                return f['id']
        except Exception:
            continue
    return None


def split_violations(prop, case, res, known, stats):
    """Drop (and count) violations attributed to known findings; return the rest"""
    rest = []
    for v in res.violations:
        fid = attribute(prop, case, v, known)
        if fid is not None:
            stats.known_hits[fid] = stats.known_hits.get(fid, 0)+1
        else:
            rest.append(v)
    return rest


def write_replay(prop, case, v, meta=None):
    d = os.path.join(os.environ.get('VF_REPLAY_DIR') or os.path.join(VERIF, 'replays'), prop)
    os.makedirs(d, exist_ok=True)
    name = f'fail_{jhash([case, v["sig"]])}.json'
    path = os.path.join(d, name)
    with open(path, 'w') as fp:
        json.dump({'property': prop, 'case': case, 'violation': v, 'meta': meta or {}}, fp, indent=1, sort_keys=True,
                  default=str)
    return os.path.relpath(path, VERIF) if path.startswith(VERIF) else path


# ------------------------------------------------------------------------------------------------------------------
# Hypothesis driver

_EXC_CLASSES = {}


def _exc_class(sig):
    if sig not in _EXC_CLASSES:
        _EXC_CLASSES[sig] = type('Violation_'+hashlib.sha1(sig.encode()).hexdigest()[:10], (Exception,), {})
    return _EXC_CLASSES[sig]


def run_campaign(check, stats, known, n_examples, seed, tier, shrink_budget_s=150, strategy=None, source='random'):
    import hypothesis
    from hypothesis import settings, HealthCheck, Phase, given, strategies as st

    state = {'fail_t0': None, 'best': {}}
    strat = strategy if strategy is not None else check.strategy(tier)

    def body(case):
        if state['fail_t0'] is not None and time.time()-state['fail_t0'] > shrink_budget_s:
            return
        _t = time.time()
        res = check.check_case(case)
        stats.extra['body_s'] = stats.extra.get('body_s', 0.0)+time.time()-_t
        if state['fail_t0'] is None:
            stats.record(case, res, source)
        rest = split_violations(check.ID, case, res, known, stats) if res.violations else []
        if rest and os.environ.get('VF_SURVEY'):
            sv = stats.extra.setdefault('survey', {})
            for v in rest:
                ent = sv.setdefault(v['sig'], {'count': 0, 'size': 10**9})
                ent['count'] += 1
                size = len(json.dumps(case, default=str))
                if size < ent['size']:
                    ent.update(size=size, case=case, detail=v['detail'], kind=v['kind'])
            return
        if rest:
            v = rest[0]
            if state['fail_t0'] is None:
                state['fail_t0'] = time.time()
            state['best'][v['sig']] = (case, v)
            state['last_sig'] = v['sig']
            raise _exc_class(v['sig'])(v['detail'])
        if hasattr(check, 'target'):
            try:
                hypothesis.target(float(check.target(case, res)))
            except Exception:
                pass

    test = given(strat)(body)
    test = hypothesis.seed(seed)(test)
    test = settings(max_examples=n_examples, database=None, deadline=None, derandomize=False,
                    report_multiple_bugs=False, print_blob=False,
                    suppress_health_check=list(HealthCheck),
                    # The targeting phase (hill climbing on check.target) was measured to spend 20x the time of the
                    # checks themselves on some seeds; it is opt-in (VF_TARGET=1). Non-triviality is reached by
                    # construction in the generators and is reported in the class histogram.
                    phases=[Phase.generate, Phase.target, Phase.shrink] if os.environ.get('VF_TARGET') else
                    [Phase.generate, Phase.shrink])(test)
    try:
        test()
    except HarnessError:
        raise
    except BaseException as e:  # noqa
        if not state['best']:
            # Not raised by a violation: harness/strategy problem
            raise HarnessError(f'{type(e).__name__}: {e}\n{traceback.format_exc()}')
    # The last recorded failing case per signature is the most-shrunk one
    if state['best']:
        sig = state.get('last_sig')
        case, v = state['best'][sig]
        path = write_replay(check.ID, case, v, meta={'seed': seed, 'tier': tier, 'source': source})
        stats.violations.append(dict(v, replay=path))
