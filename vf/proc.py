"""Shared helpers for the processor-level checks (C03, C04, C07, C14, C16)"""
import itertools
from collections import Counter
from . import refsel, identity


def full_reference(model, spec, archs, limit=3000):
    """Set of full discrete idents (nodes, sel, conn, dv) of the reference, or None if larger than limit.
    archs: selection architectures that are feasible for every connection choice."""
    out = set()
    seen_sel = set()
    for a in archs:
        nodes, sel = model.sel_ident(a)
        if (nodes, sel) in seen_sel:
            continue
        seen_sel.add((nodes, sel))
        per_cc = []
        for cc in spec.get('conns', []):
            sets = model.conn_sets(cc, a['nodes'])
            if sets is None:
                per_cc = None
                break
            per_cc.append(sets)
        if per_cc is None:
            continue
        dvs = [(n, spec['nodes'][n]['opts']) for n in spec['nodes']
               if spec['nodes'][n]['k'] == 'dv' and 'opts' in spec['nodes'][n] and n in nodes]
        n_tot = 1
        for s in per_cc:
            n_tot *= len(s)
        for _, n in dvs:
            n_tot *= n
        if len(out)+n_tot > limit:
            return None
        for conn_combo in itertools.product(*per_cc) if per_cc else [()]:
            conn = Counter()
            for edges in conn_combo:
                conn.update(edges)
            conn_t = tuple(sorted(conn.items()))
            for vals in itertools.product(*[range(n) for _, n in dvs]) if dvs else [()]:
                dv_t = tuple((name, v) for (name, _), v in zip(dvs, vals))
                out.add((nodes, sel, conn_t, dv_t))
    return out


def rec_key(rec):
    i = rec['ident']
    return (i[0], i[1], i[2], i[3])


def has_linked_dvs(spec):
    return any(m in spec['nodes'] and spec['nodes'][m]['k'] == 'dv' for con in spec.get('cons', []) for m in con['on'])


def discrete_part(meta, x):
    return tuple(int(v) for m, v in zip(meta, x) if m['discrete'])


def in_range(meta, x):
    if len(x) != len(meta):
        return False
    for m, v in zip(meta, x):
        if m['discrete']:
            if not (0 <= v < m['n_opts']) or int(v) != v:
                return False
        else:
            lo, hi = m['bounds']
            if not (lo <= v <= hi):
                return False
    return True
