"""Exploration of all orders of taking active selection choices through the DSG API (used by C02, C06, C13)."""
from collections import Counter
from . import build, identity
from .core import exc_sig


class Walk:
    def __init__(self):
        self.b = None
        self.build_exc = None
        self.initial_feasible = None
        self.states = 0
        self.revisits = 0
        self.leaves = []            # dicts: decisions, ident, feasible, final, inst
        self.order_conflicts = []   # (decisions, ident_a, ident_b)
        self.infeasible_leftover_differs = 0
        self.infeasible_decisions = []
        self.infeasible_paths = []
        self.infeasible_expansion_exceptions = 0
        self.exceptions = []        # (decisions, sig, msg)
        self.truncated = False
        self.infeasible_states = 0
        self.offered = []           # (decisions, choice id, [option names], confirmed names) at feasible states
        self.max_parallel = 0
        self.intermediate_differs = 0


def state_ident(b, g):
    from adsg_core.graph.adsg_nodes import SelectionChoiceNode
    idn = identity.instance_ident(b, g, with_dv=False)
    nxt = []
    feasible = bool(g.feasible)
    if feasible:  # an infeasible graph is a dead end: its pending choices are not queried (nor does adsg_core itself)
        for ch in g.get_ordered_next_choice_nodes():
            if isinstance(ch, SelectionChoiceNode):
                nxt.append((b.nm(ch), tuple(b.nm(o) for o in g.get_option_nodes(ch))))
    return (idn[0], idn[1], feasible, tuple(nxt))


def confirmed_names(b, g):
    """Nodes reachable from the start nodes over DERIVES edges of g without passing through choice nodes"""
    from adsg_core.graph.graph_edges import EdgeType
    from adsg_core.graph.adsg_nodes import ChoiceNode
    start = [b.node[s] for s in b.spec['start'] if b.node[s] in g.graph.nodes]
    seen = set(start)
    todo = list(start)
    while todo:
        u = todo.pop()
        for _, v, data in g.graph.out_edges(u, data=True):
            if data.get('type') != EdgeType.DERIVES or isinstance(v, ChoiceNode):
                continue
            if v not in seen:
                seen.add(v)
                todo.append(v)
    return frozenset(b.nm(n) for n in seen)


def walk(spec, max_states=3000, record_offered=False, expand_infeasible=False):
    from adsg_core.graph.adsg_nodes import SelectionChoiceNode
    w = Walk()
    build.reset_globals()
    try:
        w.b = b = build.build(spec)
    except Exception as e:  # noqa
        if exc_sig(e).endswith('@harness'):
            raise
        w.build_exc = e
        return w
    g0 = b.dsg
    w.initial_feasible = bool(g0.feasible)
    visited = {}
    stack = [(frozenset(), g0, ())]
    while stack:
        decisions, g, path = stack.pop()
        try:
            sid = state_ident(b, g)
        except Exception as e:  # noqa
            if exc_sig(e).endswith('@harness'):
                raise
            w.exceptions.append((sorted(decisions), 'state:'+exc_sig(e), f'{type(e).__name__}: {e}'[:300]))
            continue
        if decisions in visited:
            w.revisits += 1
            if sid in visited[decisions]:
                continue
            # same explicit decisions, other intermediate state (e.g. a forced choice already resolved in one order and
            # still pending in the other): not a violation by itself - the statement speaks about END results - but both
            # variants are explored; final states with equal decisions must be equal
            nxt_pending = len(sid[3]) > 0 or any(len(o[3]) > 0 for o in visited[decisions])
            both_infeasible = not sid[2] and all(not o[2] for o in visited[decisions])
            if both_infeasible:
                # what is left of an infeasible graph is not an architecture: only the verdict must agree
                w.infeasible_leftover_differs += 1
                continue
            if not nxt_pending:
                w.order_conflicts.append((sorted(decisions), visited[decisions][0], sid))
                continue
            w.intermediate_differs += 1
            visited[decisions].append(sid)
        else:
            visited[decisions] = [sid]
        w.states += 1
        if w.states > max_states:
            w.truncated = True
            break
        feasible = sid[2]
        if not feasible and not expand_infeasible:
            w.infeasible_states += 1
            w.leaves.append({'decisions': sorted(decisions), 'ident': (sid[0], sid[1]), 'feasible': False,
                             'final': bool(g.final), 'inst': g, 'path': list(path)})
            continue
        if not feasible:
            # expanding an infeasible graph (someone who only looks at feasibility at the end): adsg_core's own queries
            # may fail on it, which is not judged; what is judged is what comes out at the end
            w.infeasible_decisions.append(decisions)
            w.infeasible_paths.append(list(path))
            try:
                nxt = [ch for ch in g.get_ordered_next_choice_nodes() if isinstance(ch, SelectionChoiceNode)
                       and ch in g.graph.nodes]
            except Exception as e:  # noqa
                if exc_sig(e).endswith('@harness'):
                    raise
                w.infeasible_expansion_exceptions += 1
                continue
        else:
            nxt = [ch for ch in g.get_ordered_next_choice_nodes() if isinstance(ch, SelectionChoiceNode)]
        w.max_parallel = max(w.max_parallel, len(nxt))
        if not nxt:
            w.leaves.append({'decisions': sorted(decisions), 'ident': (sid[0], sid[1]), 'feasible': feasible,
                             'final': bool(g.final), 'inst': g, 'path': list(path)})
            continue
        if not feasible:
            w.infeasible_states += 1
            if not expand_infeasible:
                continue
        if record_offered and feasible:
            conf = confirmed_names(b, g)
            for ch in nxt:
                w.offered.append((sorted(decisions), b.nm(ch), [b.nm(o) for o in g.get_option_nodes(ch)], conf))
        for ch in nxt:
            try:
                opts_ = g.get_option_nodes(ch)
            except Exception as e:  # noqa
                if exc_sig(e).endswith('@harness') or feasible:
                    raise
                w.infeasible_expansion_exceptions += 1
                continue
            for opt in opts_:
                try:
                    g2 = g.get_for_apply_selection_choice(ch, opt)
                except Exception as e:  # noqa
                    if exc_sig(e).endswith('@harness'):
                        raise
                    if not feasible:
                        w.infeasible_expansion_exceptions += 1
                        continue
                    w.exceptions.append((sorted(decisions | {(b.nm(ch), b.nm(opt))}), 'apply:'+exc_sig(e),
                                         f'{type(e).__name__}: {e}'[:300]))
                    continue
                stack.append((decisions | {(b.nm(ch), b.nm(opt))}, g2, path+((b.nm(ch), b.nm(opt)),)))
    return w


def closure_violations(b, inst, spec):
    """C02 (a): the instance is closed under the derivation semantics, judged on the instance itself"""
    from adsg_core.graph.graph_edges import EdgeType
    from adsg_core.graph.adsg_nodes import ChoiceNode
    out = []
    g = inst.graph
    names = {b.nm(n) for n in g.nodes}
    if any(isinstance(n, ChoiceNode) for n in g.nodes):
        out.append(('choice_left', sorted(b.nm(n) for n in g.nodes if isinstance(n, ChoiceNode))))
    # reachability from the start nodes over DERIVES edges of the instance
    reach = confirmed_names(b, inst)
    if reach != frozenset(names):
        out.append(('unreachable_or_missing', sorted(names ^ set(reach))))
    # derivation edges of the design space graph
    for u, v in spec.get('edges', []):
        if u in names and v not in names:
            out.append(('required_missing', [u, v]))
    der = Counter()
    for u, v, data in g.edges(data=True):
        if data.get('type') == EdgeType.DERIVES:
            der[(b.nm(u), b.nm(v))] += 1
    base = Counter((u, v) for u, v in spec.get('edges', []))
    for c in spec.get('choices', []):
        if c['origin'] in names:
            wired = [o for o in c['opts'] if der[(c['origin'], o)]-base.get((c['origin'], o), 0) > 0 and o in names]
            if not wired:
                out.append(('choice_unresolved', [c['id'], c['origin']]))
    return out


def replay_fresh(spec, path):
    """Takes the decisions of `path` in that order on a freshly built graph (cold caches, no sibling graphs derived
    before); returns (feasible, final, ident) or None if a step is not available"""
    from adsg_core.graph.adsg_nodes import SelectionChoiceNode
    build.reset_globals()
    b = build.build(spec)
    g = b.dsg
    for cid, opt in path:
        ch = b.choice.get(cid)
        if ch is None or ch not in g.graph.nodes:
            return None
        try:
            nxt = g.get_ordered_next_choice_nodes()
        except Exception:  # noqa
            return None
        if ch not in nxt or b.node[opt] not in g.get_option_nodes(ch):
            return None
        g = g.get_for_apply_selection_choice(ch, b.node[opt])
    idn = identity.instance_ident(b, g, with_dv=False)
    return bool(g.feasible), bool(g.final), (idn[0], idn[1])
