"""G-MAT: connector settings below the graph level (DESIGN.md 3): strategies, builder, exhaustive alphabet."""
import itertools
from hypothesis import strategies as st
from .strat import ints

LETTERS = []
for _deg in ([0], [1], [2], [0, 1], [1, 2], [0, 2], {'min': 0}, {'min': 1}, {'min': 2}):
    for _rep in (False, True):
        if isinstance(_deg, list):
            LETTERS.append({'conns': _deg, 'rep': _rep})
        else:
            LETTERS.append({'min': _deg['min'], 'rep': _rep})

RAND_DEGS = [[0], [1], [2], [3], [0, 1], [1, 2], [0, 2], [1, 3], [0, 1, 2], [0, 1, 2, 3], [2, 3], [0, 3],
             {'min': 0}, {'min': 1}, {'min': 2}, {'min': 3}]


def node_strategy():
    return st.builds(lambda d, r: dict(({'conns': d} if isinstance(d, list) else d), rep=r),
                     st.sampled_from(RAND_DEGS), st.booleans())


@st.composite
def mat_spec(draw, max_side=3, max_patterns=6, overrides=True):
    n_src = draw(ints(1, max_side))
    n_tgt = draw(ints(1, max_side))
    src = [draw(node_strategy()) for _ in range(n_src)]
    tgt = [draw(node_strategy()) for _ in range(n_tgt)]
    # feasibility bias: make the targets' demand overlap what sources can supply in most cases
    if draw(ints(0, 9)) < 6:
        for t in tgt:
            if 'conns' in t and min(t['conns']) > n_src*2:
                t['conns'] = [0]+t['conns']
    excl = []
    if draw(ints(0, 2)) == 0:
        for _ in range(draw(ints(1, 2))):
            p = [draw(ints(0, n_src-1)), draw(ints(0, n_tgt-1))]
            if p not in excl:
                excl.append(p)
    par = draw(st.sampled_from([None, None, None, 1, 2, 3]))
    n_pat = draw(ints(1, max_patterns))
    patterns = []
    for _ in range(n_pat):
        pat = {'src': {}, 'tgt': {}}
        for side, n in (('src', n_src), ('tgt', n_tgt)):
            for i in range(n):
                r = draw(ints(0, 9))
                if r < 2:
                    pat[side][str(i)] = [0]  # absent
                elif r == 2 and overrides:
                    pat[side][str(i)] = sorted(set(draw(st.lists(ints(0, 4), min_size=1, max_size=3))))
        if pat not in patterns:
            patterns.append(pat)
    return {'src': src, 'tgt': tgt, 'excl': excl, 'par': par, 'patterns': patterns}


@st.composite
def par_sensitive_spec(draw):
    """Settings whose implied parallel-connection limit depends on the existence pattern: an open-ended node next to a
    node carrying the largest finite degree, with a pattern in which that node is absent / overridden"""
    k = draw(st.sampled_from([3, 3, 3, 4, 2]))   # implied limit is never below 2
    big = {'conns': sorted({draw(ints(0, k-1)), k}), 'rep': True}
    open_ = {'min': draw(ints(0, 1)), 'rep': True}
    side = draw(st.sampled_from(['src', 'tgt']))
    mine = [open_, big] if draw(st.booleans()) else [big, open_]
    i_big = mine.index(big)
    other = [{'min': draw(ints(0, 1)), 'rep': True} for _ in range(draw(ints(1, 2)))]
    pat = {'src': {}, 'tgt': {}}
    pat[side][str(i_big)] = draw(st.sampled_from([[0], [0], [1], [0, 1]]))
    patterns = [{'src': {}, 'tgt': {}}, pat] if draw(st.booleans()) else [pat, {'src': {}, 'tgt': {}}]
    ms = {'src': mine if side == 'src' else other, 'tgt': other if side == 'src' else mine, 'excl': [],
          'par': draw(st.sampled_from([None, None, k])), 'patterns': patterns}
    return ms


def all_existence_patterns(n_src, n_tgt):
    out = []
    for se in itertools.product([True, False], repeat=n_src):
        for te in itertools.product([True, False], repeat=n_tgt):
            out.append({'src': {str(i): [0] for i, e in enumerate(se) if not e},
                        'tgt': {str(j): [0] for j, e in enumerate(te) if not e}})
    return out


def exhaustive_cases(tier):
    """1x1, 1x2, 2x1 complete; 2x2 complete in thorough and an index-strided 1/16 in quick"""
    n = len(LETTERS)
    for a in range(n):
        for b in range(n):
            yield _mk([a], [b])
    for a in range(n):
        for b in range(n):
            for c in range(n):
                yield _mk([a], [b, c])
                yield _mk([a, b], [c])
    k = 0
    for idx in itertools.product(range(n), repeat=4):
        k += 1
        if tier == 'quick' and k % 16 != 0:
            continue
        yield _mk(list(idx[:2]), list(idx[2:]))


def _mk(si, ti):
    return {'src': [dict(LETTERS[i]) for i in si], 'tgt': [dict(LETTERS[i]) for i in ti], 'excl': [], 'par': None,
            'patterns': all_existence_patterns(len(si), len(ti)), 'exh': True}


# ------------------------------------------------------------------------------------------------------------------

def to_node(nd):
    from adsg_core.optimization.assign_enc.matrix import Node
    if nd.get('conns') is not None:
        return Node(nr_conn_list=list(nd['conns']), repeated_allowed=bool(nd['rep']))
    return Node(min_conn=nd['min'], repeated_allowed=bool(nd['rep']))


def to_existence(pat):
    from adsg_core.optimization.assign_enc.matrix import NodeExistence
    src_ov = {int(k): list(v) for k, v in pat.get('src', {}).items()}
    tgt_ov = {int(k): list(v) for k, v in pat.get('tgt', {}).items()}
    return NodeExistence(src_n_conn_override=src_ov or None, tgt_n_conn_override=tgt_ov or None)


def to_settings(ms, excl_as_nodes=False):
    from adsg_core.optimization.assign_enc.matrix import MatrixGenSettings, NodeExistencePatterns
    src = [to_node(n) for n in ms['src']]
    tgt = [to_node(n) for n in ms['tgt']]
    if excl_as_nodes:
        excl = [(src[i], tgt[j]) for i, j in ms.get('excl', [])]
    else:
        excl = [(int(i), int(j)) for i, j in ms.get('excl', [])]
    pats = [to_existence(p) for p in ms['patterns']]
    # duplicates (as judged by NodeExistence equality) are not allowed by the API
    uniq, keep = [], []
    for p, raw in zip(pats, ms['patterns']):
        if p not in uniq:
            uniq.append(p)
            keep.append(raw)
    settings = MatrixGenSettings(src, tgt, excluded=excl or None, existence=NodeExistencePatterns(uniq),
                                 max_conn_parallel=ms.get('par'))
    return settings, uniq, keep


def ref_settings(ms):
    return {'src': ms['src'], 'tgt': ms['tgt'], 'excl': ms.get('excl', []), 'par': ms.get('par')}


@st.composite
def pattern_family_spec(draw, max_patterns=3, always_near=False):
    """Settings shaped like the architecture-decision patterns the dedicated pattern encoders accept (so that those
    encoders are actually exercised), optionally transposed and with some absent-node existence patterns"""
    fam = draw(st.sampled_from(['combining', 'collapsed', 'assigning', 'assigning', 'partitioning', 'connecting',
                                'permuting', 'unordered', 'unordered_repl']))
    rep = draw(st.booleans())
    excl = []
    if fam == 'combining':
        src = [{'conns': [1], 'rep': rep}]
        tgt = [{'conns': [0, 1], 'rep': draw(st.booleans())} for _ in range(draw(ints(2, 4)))]
    elif fam == 'collapsed':
        src = [dict(draw(node_strategy()), rep=True)]
        tgt = [dict(draw(node_strategy()), rep=True)]
    elif fam == 'assigning':
        k = draw(st.sampled_from([0, 1, 2, 2, 3]))
        m = draw(ints(0, 1))
        rep = draw(st.sampled_from([False, False, True]))
        src = [{'min': k, 'rep': rep} for _ in range(draw(ints(1, 3)))]
        tgt = [{'min': m, 'rep': rep} for _ in range(draw(ints(1, 3)))]
    elif fam == 'partitioning':
        k = draw(ints(0, 2))
        tconn = draw(st.sampled_from([[1], [0, 1]]))
        src = [{'min': k, 'rep': rep} for _ in range(draw(ints(1, 3)))]
        tgt = [{'conns': list(tconn), 'rep': draw(st.booleans())} for _ in range(draw(ints(1, 4)))]
    elif fam == 'connecting':
        n = draw(ints(2, 3))
        src = [{'min': 0, 'rep': False} for _ in range(n)]
        tgt = [{'min': 0, 'rep': False} for _ in range(n)]
        excl = [[i, i] for i in range(n)]
        if draw(st.booleans()):
            excl += [[i, j] for i in range(n) for j in range(n) if i > j]
    elif fam == 'permuting':
        n = draw(ints(2, 4))
        src = [{'conns': [1], 'rep': rep} for _ in range(n)]
        tgt = [{'conns': [1], 'rep': rep} for _ in range(n)]
    elif fam == 'unordered':
        n = draw(ints(2, 4))
        src = [{'conns': [draw(ints(1, n))], 'rep': rep}]
        tgt = [{'conns': [0, 1], 'rep': draw(st.booleans())} for _ in range(n)]
    else:
        n = draw(ints(2, 3))
        src = [{'conns': [draw(ints(1, 3))], 'rep': True}]
        tgt = [{'min': 0, 'rep': True} for _ in range(n)]
    if draw(ints(0, 3)) == 0:
        src, tgt = tgt, src
        excl = [[j, i] for i, j in excl]
    # near misses: settings one small step away from the exact pattern shape (where `_matches_pattern` has to say no, or
    # yes and still code every matrix): toggle one excluded pair, change one degree list, flip one repeat flag
    near = False
    if always_near or draw(ints(0, 2)) == 0:
        near = True
        for _ in range(draw(ints(1, 2))):
            kind = draw(st.sampled_from(['excl', 'excl', 'deg', 'rep']))
            side = draw(st.sampled_from(['src', 'tgt']))
            nodes_ = src if side == 'src' else tgt
            i = draw(ints(0, len(nodes_)-1))
            if kind == 'excl':
                pair = [draw(ints(0, len(src)-1)), draw(ints(0, len(tgt)-1))]
                if pair in excl:
                    excl.remove(pair)
                else:
                    excl.append(pair)
            elif kind == 'rep':
                nodes_[i] = dict(nodes_[i], rep=not nodes_[i]['rep'])
            else:
                nd = dict(nodes_[i])
                if 'conns' in nd:
                    nd['conns'] = sorted(set(nd['conns']) ^ {draw(ints(0, 2))}) or [1]
                else:
                    nd['min'] = draw(ints(0, 2))
                nodes_[i] = nd
    patterns = [{'src': {}, 'tgt': {}}]
    for _ in range(draw(ints(0, max_patterns-1))):
        pat = {'src': {}, 'tgt': {}}
        for side, nodes in (('src', src), ('tgt', tgt)):
            for i in range(len(nodes)):
                if draw(ints(0, 3)) == 0:
                    pat[side][str(i)] = [0]
        if pat not in patterns:
            patterns.append(pat)
    par = draw(st.sampled_from([None, None, None, 2, 3]))
    return {'src': src, 'tgt': tgt, 'excl': excl, 'par': par, 'patterns': patterns,
            'family': fam+('_near' if near else '')}
