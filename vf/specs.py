"""Hypothesis strategies producing plain JSON specs (DESIGN.md 3). Never imports adsg_core."""
from hypothesis import strategies as st
from .strat import ints

DEG_ALPHABET = [
    [0], [1], [2], [0, 1], [1, 2], [0, 2], [1, 3], [0, 1, 2],
    {'min': 0, 'max': 1}, {'min': 0, 'max': 2}, {'min': 1, 'max': 2},
    {'min': 0, 'max': None}, {'min': 1, 'max': None}, {'min': 2, 'max': None},
]
CON_TYPES = ['LINKED', 'PERMUTATION', 'UNORDERED', 'UNORDERED_NOREPL']


@st.composite
def sel_spec(draw, min_nodes=3, max_nodes=12, max_incompat=3, p_extra=True, max_opts=4, dag_rich=False):
    n = draw(ints(min_nodes, max_nodes))
    n_start = draw(st.sampled_from([1, 1, 1, 2])) if n >= 4 else 1
    names = [f'n{i}' for i in range(n)]
    nodes = {nm: {'k': 'gen'} for nm in names}
    start = names[:n_start]
    placed = list(start)
    edges = []
    choices = []  # {'origin','opts'}
    for nm in names[n_start:]:
        modes = ['derive', 'new_choice', 'new_choice']
        open_choices = [i for i, c in enumerate(choices) if len(c['opts']) < max_opts]
        if open_choices:
            modes += ['add_opt', 'add_opt', 'add_opt']
        mode = draw(st.sampled_from(modes))
        if mode == 'derive':
            parent = draw(st.sampled_from(placed[-4:] if dag_rich else placed))
            edges.append([parent, nm])
        elif mode == 'new_choice':
            origin = draw(st.sampled_from(placed))
            choices.append({'origin': origin, 'opts': [nm]})
        else:
            i = draw(st.sampled_from(open_choices))
            choices[i]['opts'].append(nm)
        placed.append(nm)

    if dag_rich:
        # many forward cross links: nodes with several derivers (diamonds), no cycles from these
        for _ in range(draw(ints(2, 7))):
            i = draw(ints(0, len(placed)-2))
            j = draw(ints(i+1, len(placed)-1))
            u, v = placed[i], placed[j]
            if v in start or [u, v] in edges or any(c['origin'] == u and v in c['opts'] for c in choices):
                continue
            edges.append([u, v])
    if p_extra:
        # extra derivation edges (cross links, cycles)
        n_extra = draw(ints(0, 3))
        for _ in range(n_extra):
            u = draw(st.sampled_from(placed))
            v = draw(st.sampled_from(placed))
            if [u, v] in edges:
                continue
            if u == v and (u in start or draw(ints(0, 2)) != 0):
                continue   # self-referencing derivation edges (cycles of length 1) are kept in one third of the draws
            if any(c['origin'] == u and v in c['opts'] for c in choices):
                continue
            edges.append([u, v])
        # shared option nodes: add an existing node to an existing choice
        n_shared = draw(ints(0, 2)) if choices else 0
        for _ in range(n_shared):
            i = draw(ints(0, len(choices)-1))
            v = draw(st.sampled_from(placed))
            c = choices[i]
            if v in start or v == c['origin'] or v in c['opts'] or len(c['opts']) >= max_opts:
                continue
            if [c['origin'], v] in edges:
                continue
            c['opts'].append(v)
        # an extra choice over existing nodes
        if draw(ints(0, 3)) == 0 and len(placed) > n_start+2:
            origin = draw(st.sampled_from(placed))
            cand = [v for v in placed if v not in start and v != origin and [origin, v] not in edges]
            if len(cand) >= 2:
                k = draw(ints(2, min(3, len(cand))))
                opts = draw(st.permutations(cand))[:k]
                choices.append({'origin': origin, 'opts': list(opts)})

    if p_extra and draw(ints(0, 3)) == 0:
        # root nodes that are NOT start nodes (removed by set_start_nodes together with everything only they derive);
        # their derivation chains may merge indirectly and may lead into nodes that are reachable from the start nodes
        n_orph = draw(ints(1, 3))
        mids = []
        for i in range(n_orph):
            nodes[f'q{i}'] = {'k': 'gen'}
            if draw(ints(0, 3)) != 0:
                nodes[f'qm{i}'] = {'k': 'gen'}
                edges.append([f'q{i}', f'qm{i}'])
                mids.append(f'qm{i}')
            else:
                mids.append(f'q{i}')
        if draw(ints(0, 3)) != 0:
            nodes['qg'] = {'k': 'gen'}
            for m in draw(st.lists(st.sampled_from(mids), min_size=1, max_size=len(mids), unique=True)):
                edges.append([m, 'qg'])
            tail = 'qg'
            if draw(st.booleans()):
                nodes['qh'] = {'k': 'gen'}
                edges.append(['qg', 'qh'])
                tail = 'qh'
            r = draw(ints(0, 3))
            if r == 0:
                v = draw(st.sampled_from(placed))
                if v not in start:
                    edges.append([tail, v])
            elif r == 1:
                nodes['qo0'] = {'k': 'gen'}
                nodes['qo1'] = {'k': 'gen'}
                choices.append({'origin': tail, 'opts': ['qo0', 'qo1']})
            elif r == 2 and len(placed) > n_start:
                v = draw(st.sampled_from(placed[n_start:]))
                nodes['qo0'] = {'k': 'gen'}
                choices.append({'origin': tail, 'opts': ['qo0', v]})

    restart_first = None
    if p_extra and len(placed) > n_start and draw(ints(0, 5)) == 0:
        # an additional start node that is itself derived / an option below the other start nodes (made permanent by
        # declaring it a start node); in half of these the graph is initialised twice (first without it)
        # (not an option node itself: a permanent node that is also an unselected option is the class of KF01)
        cand = [v for v in placed[n_start:] if not any(v in c['opts'] for c in choices)]
        if cand:
            extra = draw(st.sampled_from(cand))
            if draw(st.booleans()):
                restart_first = list(start)
            start = list(start)+[extra]

    incompat = []
    n_inc = draw(ints(0, max_incompat))
    for _ in range(n_inc):
        u = draw(st.sampled_from(placed))
        v = draw(st.sampled_from(placed))
        if u == v or [u, v] in incompat or [v, u] in incompat:
            continue
        incompat.append([u, v])

    # choice ids: a permutation, so that the id order differs from creation order
    ids = draw(st.permutations([f'c{i}' for i in range(len(choices))])) if choices else []
    out_choices = [{'id': ids[i], 'origin': c['origin'], 'opts': c['opts']} for i, c in enumerate(choices)]
    salt = draw(st.sampled_from([0, 0, 1, 2, 3, 5, 7]))
    out = {'salt': salt, 'nodes': nodes, 'edges': edges, 'choices': out_choices, 'incompat': incompat,
           'start': start, 'conns': [], 'cons': []}
    if restart_first:
        out['restart_first'] = restart_first
    return out


@st.composite
def coupled_spec(draw):
    """2-3 selection choices that are active from the start and coupled by incompatibility constraints between their
    options (the complete encoder merges them into one scenario in which not every value combination exists), plus
    optionally a dependent choice below one of the options"""
    n_ch = draw(ints(2, 3))
    nodes, edges, choices, start = {}, [], [], []
    two_start = draw(st.booleans())
    nodes['r'] = {'k': 'gen'}
    start.append('r')
    ids = draw(st.permutations([f'c{i}' for i in range(n_ch+1)]))
    for i in range(n_ch):
        if two_start:
            org = f'r{i}'
            nodes[org] = {'k': 'gen'}
            start.append(org)
        else:
            org = 'r'
        opts = [f'k{i}o{j}' for j in range(draw(ints(2, 3)))]
        for o in opts:
            nodes[o] = {'k': 'gen'}
        choices.append({'id': ids[i], 'origin': org, 'opts': opts})
    incompat = []
    for _ in range(draw(ints(1, 3))):
        i = draw(ints(0, n_ch-2))
        j = draw(ints(i+1, n_ch-1))
        pair = [draw(st.sampled_from(choices[i]['opts'])), draw(st.sampled_from(choices[j]['opts']))]
        if pair not in incompat:
            incompat.append(pair)
    if draw(ints(0, 3)) != 0:
        host = draw(st.sampled_from(choices[draw(ints(0, n_ch-1))]['opts']))
        opts = [f'd{j}' for j in range(draw(ints(2, 3)))]
        nodes['dn'] = {'k': 'gen'}
        edges.append([host, 'dn'])
        for o in opts:
            nodes[o] = {'k': 'gen'}
        choices.append({'id': ids[n_ch], 'origin': 'dn', 'opts': opts})
    if two_start:
        start = start[1:]
        del nodes['r']
    return {'salt': draw(st.sampled_from([0, 0, 1, 3])), 'nodes': nodes, 'edges': edges, 'choices': choices,
            'incompat': incompat, 'start': start, 'conns': [], 'cons': []}


@st.composite
def dead_end_spec(draw):
    """Two permanent selection choices A, B and a nested choice C below an option of B; every option of C is ruled out
    in some branch by incompatibilities with an option of A or with a node that comes with C's originating node, so some
    selections of A and B are dead ends (C left without options) that decoding has to correct away from - repeatedly,
    because every vector of the declared space is decoded on the same processor"""
    nodes = {'r': {'k': 'gen'}, 'ra': {'k': 'gen'}, 'rb': {'k': 'gen'}}
    edges = [['r', 'ra'], ['r', 'rb']]
    ids = draw(st.permutations(['c0', 'c1', 'c2']))
    a_opts = [f'a{j}' for j in range(draw(ints(2, 3)))]
    b_opts = [f'b{j}' for j in range(draw(ints(2, 3)))]
    c_opts = [f'c{j}' for j in range(draw(ints(2, 3)))]
    for o in a_opts+b_opts+c_opts:
        nodes[o] = {'k': 'gen'}
    host = draw(st.sampled_from(b_opts))
    nodes['bx'] = {'k': 'gen'}       # comes with the host option
    nodes['bc'] = {'k': 'gen'}       # originating node of the nested choice
    edges += [[host, 'bx'], [host, 'bc']]
    choices = [{'id': ids[0], 'origin': 'ra', 'opts': a_opts}, {'id': ids[1], 'origin': 'rb', 'opts': b_opts},
               {'id': ids[2], 'origin': 'bc', 'opts': c_opts}]
    incompat = []
    for o in c_opts:
        r = draw(ints(0, 3))
        if r == 0:
            continue
        other = 'bx' if r == 1 else draw(st.sampled_from(a_opts))
        if [other, o] not in incompat:
            incompat.append([other, o])
    if not incompat:
        incompat.append([a_opts[-1], c_opts[0]])
    spec = {'salt': draw(st.sampled_from([0, 0, 1, 3])), 'nodes': nodes, 'edges': edges, 'choices': choices,
            'incompat': incompat, 'start': ['r'], 'conns': [], 'cons': []}
    if draw(ints(0, 2)) == 0:
        spec = draw(add_dvs(spec, max_dv=1))
    return spec


@st.composite
def necessary_conflict_spec(draw):
    """An option T that is incompatible with a node X which a confirmed node derives *necessarily* (every option of a
    choice K below that node derives X), T's choice sitting 0-3 exclusively derived steps below the confirmed node, plus
    independent choices that can be taken before or after"""
    nodes = {n: {'k': 'gen'} for n in ['s', 'd', 'x']}
    edges = [['s', 'd']]
    prev = 'd'
    for i in range(draw(ints(0, 3))):
        nodes[f'q{i}x'] = {'k': 'gen'}      # (named q..x: not a removed root, just a chain node)
        edges.append([prev, f'q{i}x'])
        prev = f'q{i}x'
    ids = draw(st.permutations(['c0', 'c1', 'c2', 'c3']))
    t_opts = [f't{j}' for j in range(draw(ints(2, 3)))]
    k_opts = [f'k{j}' for j in range(draw(ints(2, 3)))]
    for o in t_opts+k_opts:
        nodes[o] = {'k': 'gen'}
    all_derive = draw(ints(0, 3)) != 0
    for j, o in enumerate(k_opts):
        if all_derive or j > 0:
            edges.append([o, 'x'])
    choices = [{'id': ids[0], 'origin': prev, 'opts': t_opts},
               {'id': ids[1], 'origin': draw(st.sampled_from(['d', 's'])), 'opts': k_opts}]
    for i in range(draw(ints(1, 2))):
        opts = [f'u{i}{j}' for j in range(2)]
        for o in opts:
            nodes[o] = {'k': 'gen'}
        choices.append({'id': ids[2+i], 'origin': draw(st.sampled_from(['s', 'd'])), 'opts': opts})
    incompat = [[t_opts[0], 'x']]
    if draw(ints(0, 2)) == 0:
        incompat.append([draw(st.sampled_from(t_opts)), draw(st.sampled_from(k_opts))])
    return {'salt': draw(st.sampled_from([0, 0, 1, 3])), 'nodes': nodes, 'edges': edges, 'choices': choices,
            'incompat': incompat, 'start': ['s'], 'conns': [], 'cons': []}


@st.composite
def excl_pattern_spec(draw):
    """One connection choice with interchangeable connectors on one side (same degree specification), some of them below
    different options of a selection choice, and 1-2 excluded pairs: the existence patterns leave the same connector
    specifications with the exclusion at a different position"""
    nodes = {'r': {'k': 'gen'}}
    edges = []
    n_opt = draw(ints(2, 3))
    opts = [f'o{j}' for j in range(n_opt)]
    for o in opts:
        nodes[o] = {'k': 'gen'}
    choices = [{'id': 'c0', 'origin': 'r', 'opts': opts}]
    n_many = 3
    many_side, few_side = draw(st.sampled_from([('tgt', 'src'), ('src', 'tgt')]))
    deg_many = draw(st.sampled_from([[0, 1], [0, 1], [1], {'min': 0, 'max': 1}, {'min': 0, 'max': None}, [0, 1, 2]]))
    rep_many = draw(st.booleans())
    cc = {'id': 'k0', 'src': [], 'tgt': [], 'excl': []}
    parents = draw(st.permutations(opts+['r']*(n_many)))[:n_many]
    for j in range(n_many):
        nm = f'{many_side[0]}0{j}'
        nodes[nm] = {'k': 'conn', 'deg': deg_many, 'rep': rep_many}
        edges.append([parents[j], nm])
        cc[many_side].append(nm)
    for j in range(draw(ints(1, 2))):
        nm = f'{few_side[0]}0{j}'
        nodes[nm] = {'k': 'conn', 'deg': draw(st.sampled_from([[1], [1], [0, 1], [1, 2], {'min': 1, 'max': None}])),
                     'rep': draw(st.booleans())}
        edges.append(['r', nm])
        cc[few_side].append(nm)
    for _ in range(draw(ints(1, 2))):
        pair = [draw(st.sampled_from(cc['src'])), draw(st.sampled_from(cc['tgt']))]
        if pair not in cc['excl']:
            cc['excl'].append(pair)
    return {'salt': draw(st.sampled_from([0, 0, 1, 3])), 'nodes': nodes, 'edges': edges, 'choices': choices,
            'incompat': [], 'start': ['r'], 'conns': [cc], 'cons': []}


def gen_nodes(spec):
    return [n for n, nd in spec['nodes'].items() if nd['k'] == 'gen']


@st.composite
def add_dvs(draw, spec, max_dv=3):
    gens = gen_nodes(spec)
    n_dv = draw(ints(0, max_dv))
    for i in range(n_dv):
        nm = f'dv{i}'
        if draw(st.booleans()):
            spec['nodes'][nm] = {'k': 'dv', 'opts': draw(ints(1, 4))}
        else:
            lo = draw(st.sampled_from([-2.0, 0.0, 0.5, 10.0]))
            w = draw(st.sampled_from([0.5, 1.0, 3.0, 100.0]))
            spec['nodes'][nm] = {'k': 'dv', 'bounds': [lo, lo+w]}
        if i > 0 and draw(ints(0, 3)) == 0:
            # a second design-variable node with the same displayed name and the same domain as the first one (e.g. a
            # 'span' under the wing and under the tail): two different nodes, two different variables
            first = spec['nodes']['dv0']
            spec['nodes'][nm] = dict({k_: v_ for k_, v_ in first.items() if k_ != 'label'}, label='dv0')
        spec['edges'].append([draw(st.sampled_from(gens)), nm])
    return spec


@st.composite
def add_metrics(draw, spec, max_met=4):
    gens = gen_nodes(spec)
    n = draw(ints(1, max_met))
    for i in range(n):
        nm = f'm{i}'
        spec['nodes'][nm] = {'k': 'met', 'dir': draw(st.sampled_from([None, -1, 1])),
                             'ref': draw(st.sampled_from([None, 0.0, 1.5, -3.0])),
                             'type': draw(st.sampled_from([None, None, 'NONE', 'OBJECTIVE', 'CONSTRAINT',
                                                           'OBJ_OR_CON']))}
        spec['edges'].append([draw(st.sampled_from(gens)), nm])
        if draw(ints(0, 4)) == 0:  # second deriver
            p2 = draw(st.sampled_from(gens))
            if [p2, nm] not in spec['edges']:
                spec['edges'].append([p2, nm])
    return spec


@st.composite
def add_conns(draw, spec, max_choices=2, max_side=3, allow_grp=True, small=False, start_bias=2, min_choices=None,
              grp_den=3):
    gens = gen_nodes(spec)
    n_cc = draw(ints(1, max_choices)) if min_choices is None else draw(ints(min_choices, max_choices))
    alphabet = DEG_ALPHABET
    for i_cc in range(n_cc):
        cc = {'id': f'k{i_cc}', 'src': [], 'tgt': [], 'excl': []}
        for side in ('src', 'tgt'):
            n_side = draw(ints(1, 2 if small else max_side))
            conn_names = []
            # interchangeable connectors (same degree specification and repeat flag) in a third of the cases: existence
            # patterns then differ only in WHICH of them exist
            same = draw(ints(0, 2)) == 0
            same_deg, same_rep = draw(st.sampled_from(alphabet)), draw(st.booleans())
            for j in range(n_side):
                nm = f'{side[0]}{i_cc}{j}'
                spec['nodes'][nm] = {'k': 'conn', 'deg': same_deg if same else draw(st.sampled_from(alphabet)),
                                     'rep': same_rep if same else draw(st.booleans())}
                # bias towards permanent parents (start nodes) so that not everything is conditional
                parent = draw(st.sampled_from(gens+spec['start']*start_bias))
                spec['edges'].append([parent, nm])
                conn_names.append(nm)
            items = list(conn_names)
            if allow_grp and n_side >= 2 and draw(ints(0, grp_den)) == 0:
                k = draw(ints(2, n_side))
                members = conn_names[:k]
                rep = spec['nodes'][members[0]]['rep']
                for m in members:
                    spec['nodes'][m]['rep'] = rep
                g = f'g{side[0]}{i_cc}'
                spec['nodes'][g] = {'k': 'grp'}
                items = [{'grp': g, 'members': members}]+conn_names[k:]
            cc[side] = items
        tops = lambda items: [it['grp'] if isinstance(it, dict) else it for it in items]
        n_ex = draw(ints(0, 2)) if draw(st.booleans()) else 0
        for _ in range(n_ex):
            pair = [draw(st.sampled_from(tops(cc['src']))), draw(st.sampled_from(tops(cc['tgt'])))]
            if pair not in cc['excl']:
                cc['excl'].append(pair)
        spec['conns'].append(cc)
    return spec


@st.composite
def add_constraint(draw, spec, allow_dv=True):
    """One choice constraint over 2-3 new selection choices with equal option counts and fresh option nodes."""
    gens = gen_nodes(spec)
    t = draw(st.sampled_from(CON_TYPES))
    n_ch = draw(ints(2, 3))
    n_opt = draw(ints(2, 3 if n_ch == 3 else 4))
    placement = draw(st.sampled_from(['perm', 'hier', 'hier_rev', 'mutex', 'free', 'free', 'pool', 'window']))
    if n_ch > n_opt and t in ('PERMUTATION', 'UNORDERED_NOREPL') and placement != 'perm':
        # unsatisfiable sizes: documented as 'the DSG is infeasible' (docs/theory.md), which agrees with the property
        # statement ('the affected branch is infeasible') only when all constrained choices are permanent
        n_opt = n_ch
    existing = len(spec['choices'])
    # ids: constrained choices get ids that sort in creation order ('x0' < 'x1' ...) or reversed
    ids = [f'x{i}' for i in range(n_ch)]
    if placement == 'hier_rev':
        ids = list(reversed(ids))
    new_choices = []
    origins = []
    pool = [f'po{j}' for j in range(n_opt+(n_ch-1 if placement == 'window' else 0))] if placement in ('pool', 'window') \
        else []
    for o in pool:
        spec['nodes'][o] = {'k': 'gen'}
    for i in range(n_ch):
        opts = []
        if pool:
            # constrained choices sharing option nodes (one pool / overlapping windows), each on its own permanent node
            opts = pool[i:i+n_opt] if placement == 'window' else list(pool)
        else:
            for j in range(n_opt):
                nm = f'{ids[i]}o{j}'
                spec['nodes'][nm] = {'k': 'gen'}
                opts.append(nm)
        if pool:
            origin = f'h{i}'
            spec['nodes'][origin] = {'k': 'gen'}
            spec['edges'].append([spec['start'][0], origin])
        elif placement == 'perm':
            origin = spec['start'][0]
        elif placement in ('hier', 'hier_rev'):
            origin = spec['start'][0] if i == 0 else new_choices[i-1]['opts'][draw(ints(0, n_opt-1))]
        elif placement == 'mutex':
            if i == 0:
                # parent choice with one option per constrained choice
                par_opts = []
                for j in range(n_ch):
                    nm = f'mx{j}'
                    spec['nodes'][nm] = {'k': 'gen'}
                    par_opts.append(nm)
                spec['choices'].append({'id': 'mx', 'origin': spec['start'][0], 'opts': par_opts})
            origin = f'mx{i}' if (i < 2 or draw(st.booleans())) else 'mx0'
        else:
            origin = draw(st.sampled_from(gens))
        origins.append(origin)
        new_choices.append({'id': ids[i], 'origin': origin, 'opts': opts})
    spec['choices'] += new_choices
    spec['cons'].append({'type': t, 'on': sorted(ids), 'placement': placement})
    return spec


@st.composite
def add_linked_dvs(draw, spec):
    gens = gen_nodes(spec)
    n = draw(ints(2, 3))
    discrete = draw(st.booleans())
    n_opt = draw(ints(2, 4))
    names = []
    for i in range(n):
        nm = f'ldv{i}'
        if discrete:
            spec['nodes'][nm] = {'k': 'dv', 'opts': n_opt}
        else:
            lo = draw(st.sampled_from([-2.0, 0.0, 10.0]))
            spec['nodes'][nm] = {'k': 'dv', 'bounds': [lo, lo+draw(st.sampled_from([1.0, 4.0]))]}
        parent = draw(st.sampled_from(gens+spec['start']))
        spec['edges'].append([parent, nm])
        names.append(nm)
    spec['cons'].append({'type': 'LINKED', 'on': names})
    return spec


@st.composite
def full_spec(draw, p_conn=0.35, p_dv=0.4, p_con=0.3, max_nodes=10, small_conn=False):
    """G-SEL u G-CONN u G-DV u G-CON mix used by the processor-level checks"""
    spec = draw(sel_spec(max_nodes=max_nodes))
    r = draw(ints(0, 99))
    if r < p_con*100:
        spec = draw(add_constraint(spec))
    r = draw(ints(0, 99))
    if r < p_conn*100:
        spec = draw(add_conns(spec, max_choices=1 if draw(ints(0, 3)) else 2, small=small_conn))
    r = draw(ints(0, 99))
    if r < p_dv*100:
        spec = draw(add_dvs(spec))
    return spec


# ------------------------------------------------------------------------------------------------------------------
# labels

def labels(spec):
    out = []
    succ = {}
    for u, v in spec['edges']:
        succ.setdefault(u, []).append(v)
    # cycle detection over derivation edges + choice option edges
    full = {k: list(v) for k, v in succ.items()}
    for c in spec['choices']:
        full.setdefault(c['origin'], []).extend(c['opts'])
    color = {}

    def dfs(u):
        color[u] = 1
        for v in full.get(u, []):
            if color.get(v) == 1:
                return True
            if v not in color and dfs(v):
                return True
        color[u] = 2
        return False
    if any(dfs(n) for n in list(spec['nodes']) if n not in color):
        out.append('has_cycle')
    seen_opts = {}
    for c in spec['choices']:
        for o in c['opts']:
            seen_opts[o] = seen_opts.get(o, 0)+1
    if any(v > 1 for v in seen_opts.values()):
        out.append('shared_option')
    origins = [c['origin'] for c in spec['choices']]
    if len(set(origins)) < len(origins):
        out.append('multi_choice_origin')
    if len(spec['start']) > 1:
        out.append('multi_start')
    if spec.get('restart_first'):
        out.append('initialised_twice')
    if any(n.startswith('q') and not n.endswith('x') for n in spec['nodes']):
        out.append('non_start_roots')
    if any(len(c['opts']) == 1 for c in spec['choices']):
        out.append('forced_choice')
    if spec.get('incompat'):
        out.append(f'incompat{len(spec["incompat"])}')
    owner = {}
    for c in spec['choices']:
        for o in c['opts']:
            owner.setdefault(o, set()).add(c['id'])
    if any(u in owner and v in owner and owner[u] != owner[v] for u, v in spec.get('incompat', [])):
        out.append('coupled_choices')
    opt_set = set(seen_opts)
    if any(o in opt_set for o in origins):
        out.append('hierarchical')
    if spec.get('conns'):
        out.append(f'conn{len(spec["conns"])}')
        for cc in spec['conns']:
            for side in ('src', 'tgt'):
                for it in cc[side]:
                    if isinstance(it, dict):
                        out.append('grouping')
            if cc.get('excl'):
                out.append('exclusion')
        for n, nd in spec['nodes'].items():
            if nd['k'] == 'conn':
                d = nd['deg']
                if isinstance(d, dict) and d.get('max') is None:
                    out.append('open_ended')
                if d in ([0, 2], [1, 3]):
                    out.append('noncontiguous')
                if nd.get('rep'):
                    out.append('repeated')
    if any(nd['k'] == 'dv' for nd in spec['nodes'].values()):
        out.append('dv')
    if any(nd.get('label') for nd in spec['nodes'].values()):
        out.append('dv_same_name')
    for con in spec.get('cons', []):
        out.append('con_'+con['type'])
        if 'placement' in con:
            out.append('place_'+con['placement'])
    if not spec['choices']:
        out.append('no_choice')
    return sorted(set(out))


@st.composite
def two_conn_spec(draw, max_nodes=7, start_bias=0):
    """Small selection graph with two connection choices whose connectors are mostly conditional (scenarios without a
    valid connection set for the first or the second choice)"""
    spec = draw(sel_spec(min_nodes=3, max_nodes=max_nodes, max_incompat=0, p_extra=False))
    spec = draw(add_conns(spec, max_choices=2, min_choices=2, small=True, start_bias=start_bias,
                          allow_grp=draw(st.booleans())))
    return spec


@st.composite
def layered_spec(draw, max_incompat=3):
    """Layered derivation DAG: several choices on the start node, intermediate nodes with one or two derivers (diamonds,
    nodes shared between branches), deeper nodes derived from those, optionally a nested choice; incompatibilities between
    arbitrary non-start nodes. Complements sel_spec, whose derived nodes mostly have a single deriver."""
    nodes = {'n0': {'k': 'gen'}}
    edges, choices = [], []
    k = [1]

    def new():
        nm = f'n{k[0]}'
        k[0] += 1
        nodes[nm] = {'k': 'gen'}
        return nm

    l1 = []
    for i in range(draw(ints(2, 3))):
        opts = [new() for _ in range(draw(ints(2, 3)))]
        choices.append({'origin': 'n0', 'opts': opts})
        l1 += opts
    l2 = []
    for _ in range(draw(ints(2, 4))):
        nm = new()
        parents = draw(st.lists(st.sampled_from(l1+l2), min_size=1, max_size=2, unique=True))
        for p_ in parents:
            edges.append([p_, nm])
        l2.append(nm)
    l3 = []
    for _ in range(draw(ints(1, 3))):
        nm = new()
        parents = draw(st.lists(st.sampled_from(l2+l3), min_size=1, max_size=2, unique=True))
        for p_ in parents:
            edges.append([p_, nm])
        l3.append(nm)
    if draw(st.booleans()):
        origin = draw(st.sampled_from(l2+l3))
        opts = [new() for _ in range(draw(ints(1, 3)))]
        if draw(st.booleans()):
            opts.append(draw(st.sampled_from([n for n in l2+l3 if n != origin])))
        choices.append({'origin': origin, 'opts': opts})
    others = [n for n in nodes if n != 'n0']
    incompat = []
    for _ in range(draw(ints(1, max_incompat))):
        u = draw(st.sampled_from(others))
        v = draw(st.sampled_from(others))
        if u != v and [u, v] not in incompat and [v, u] not in incompat:
            incompat.append([u, v])
    ids = draw(st.permutations([f'c{i}' for i in range(len(choices))]))
    return {'salt': draw(st.sampled_from([0, 0, 1, 2, 3])), 'nodes': nodes, 'edges': edges,
            'choices': [{'id': ids[i], 'origin': c['origin'], 'opts': c['opts']} for i, c in enumerate(choices)],
            'incompat': incompat, 'start': ['n0'], 'conns': [], 'cons': []}


@st.composite
def conn_dv_spec(draw, max_nodes=6):
    """Small selection graph + one connection choice with conditional connectors (some scenarios without a valid
    connection set) + design-variable nodes under conditional nodes"""
    spec = draw(sel_spec(min_nodes=3, max_nodes=max_nodes, max_incompat=0, p_extra=False))
    spec = draw(add_conns(spec, max_choices=1, small=True, start_bias=0, allow_grp=False))
    spec = draw(add_dvs(spec, max_dv=2))
    if not any(nd['k'] == 'dv' for nd in spec['nodes'].values()):
        spec['nodes']['dvz'] = {'k': 'dv', 'opts': 2}
        spec['edges'].append([draw(st.sampled_from(gen_nodes(spec))), 'dvz'])
    return spec
