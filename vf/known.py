"""Class predicates of the known findings (known_findings.json). Each takes (case, violation) and decides whether the
violation belongs to the finding's specific class of inputs / call sites. Kept deliberately narrow."""


def _spec(case):
    return case.get('spec', case)


def _msg(v):
    return (v.get('data') or {}).get('msg', '') or v.get('detail', '')


def unselected_option_confirmed_elsewhere(case, v):
    """KF01: a node that is a declared option of a taken selection choice, was not the selected option, but is confirmed
    through another derivation path (the influence matrix then considers it removed: choices behind it never become
    active)."""
    spec = _spec(case)
    data = v.get('data') or {}
    nodes = set(data.get('nodes') or [])
    sel = {tuple(e) for e in (data.get('sel') or [])}
    if not nodes:
        return False
    for c in spec.get('choices', []):
        if c['origin'] not in nodes:
            continue
        selected = {o for o in c['opts'] if (c['origin'], o) in sel}
        if 'assign' in data and c['id'] in data['assign']:
            selected = {data['assign'][c['id']]}
        if not selected:
            continue
        if any(o in nodes and o not in selected for o in c['opts']):
            return True
    return False
