"""Class predicates of the known findings (known_findings.json). Each takes (case, violation) and decides whether the
violation belongs to the finding's specific class of inputs / call sites. Kept deliberately narrow."""

import os

def _spec(case):
    return case.get('spec', case)


def _msg(v):
    return (v.get('data') or {}).get('msg', '') or v.get('detail', '')


def unselected_option_confirmed_elsewhere(case, v):
    """KF01: a node that is a declared option of a taken selection choice, was not the selected option, but is confirmed
    through another derivation path (the influence matrix then considers it removed: choices behind it never become
    active)."""
    spec = _spec(case)
    data = v.get('data') or {}
    nodes = set(data.get('nodes') or [])
    sel = {tuple(e) for e in (data.get('sel') or [])}
    if not nodes:
        return False
    assign = data.get('assign') or {}
    if len(set(assign.values())) < len(assign):
        return True   # the same (shared) option node is the selected option of two active choices
    for c in spec.get('choices', []):
        if c['origin'] not in nodes:
            continue
        selected = {o for o in c['opts'] if (c['origin'], o) in sel}
        if 'assign' in data and c['id'] in data['assign']:
            selected = {data['assign'][c['id']]}
        if not selected:
            continue
        if any(o in nodes and o not in selected for o in c['opts']):
            return True
    return False


def _d(v):
    return v.get('data') or {}


def eager_direct_hit_reports_inactive_as_active(case, v):
    """KF02: eager (matrix-table) encoders: a vector that hits a stored design vector directly is returned with all
    leading variables active, while the same matrix reached through imputation reports the stored inactive (-1)
    variables as inactive. Same vector, same matrix, strictly more variables active on the direct hit."""
    d = _d(v)
    return d.get('group') in ('eager', 'enum') and bool(d.get('same_vec')) and bool(d.get('same_mat')) and \
        bool(d.get('more_active'))


def zero_variables_listed_with_surplus_column(case, v):
    """KF03: coding without declared variables (exactly one matrix): get_all_design_vectors lists a 1-column vector"""
    d = _d(v)
    return d.get('n_dv') == 0


def eager_delta_closest_imputer_narrow_pattern(case, v):
    """KF04: non-default eager imputers (DeltaImputer, ClosestImputer) with several existence patterns whose design
    vectors have different widths: broadcast error / empty matrix returned"""
    d = _d(v)
    return d.get('group') in ('eager', 'enum') and d.get('imputer') in ('DeltaImputer', 'ClosestImputer') and \
        (d.get('n_patterns') or 0) > 1


def lazy_encoder_declares_unused_value(case, v):
    """KF05: lazy encoders derive their variables from per-slot bounds without enumerating: a declared variable can have
    a single value that is ever used"""
    d = _d(v)
    return d.get('group') in ('lazy', 'pattern')   # pattern encoders are lazy encoders too


def pattern_encoder_cannot_decode_declared_value(case, v):
    """KF06: a pattern encoder accepted the settings but raises 'Pattern encoder should never (automatically) impute'
    for declared values (settings with existence patterns that absent nodes or override degree lists)"""
    d = _d(v)
    if 'Pattern encoder should never' not in (d.get('msg') or v.get('detail', '')) or \
            d.get('group', 'pattern') != 'pattern':
        return False
    ms = case.get('ms')
    if ms is not None:
        # encoder level: seen for a single source x single target ('collapsed' combining / 1x1 assigning), for existence
        # patterns that leave one side without any node, and for settings with an explicit max_conn_parallel
        pat = d.get('pattern') or {}
        def _n_eff(side):
            ov = pat.get(side) or {}
            return sum(1 for i, nd in enumerate(ms[side])
                       if ov.get(str(i), nd.get('conns')) != [0])   # absent or zero-degree nodes do not take part
        n_src, n_tgt = _n_eff('src'), _n_eff('tgt')
        return (n_src <= 1 and n_tgt <= 1) or n_src == 0 or n_tgt == 0 or ms.get('par') is not None
    # graph level: a connection choice with at most one effective (not zero-degree) source or target connector
    spec = _spec(case)

    exists = _reach(_succ(spec, with_choices=True), spec['start'])   # connectors below removed (non-start) roots never exist

    def n_eff(items):
        n = 0
        for it in items:
            if isinstance(it, dict):
                n += 1 if any(m in exists for m in it['members']) else 0
            elif spec['nodes'][it].get('deg') != [0] and it in exists:
                n += 1
        return n
    if any(n_eff(cc['src']) <= 1 or n_eff(cc['tgt']) <= 1 for cc in spec.get('conns', [])):
        return True
    # ... or in some selection scenario: connectors under mutually exclusive options leave one per side
    from . import refsel
    try:
        archs = refsel.Model(spec).sel_architectures(arch_max=2000)
    except Exception:  # noqa
        return False
    for a in archs:
        exists = set(a['nodes'])
        for cc in spec.get('conns', []):
            if n_eff(cc['src']) <= 1 or n_eff(cc['tgt']) <= 1:
                return True
    return False


def pattern_encoder_single_option_variable(case, v):
    """KF07: a pattern encoder matches the settings but its encoding has a variable with one option; LazyEncoder
    .set_settings then raises RuntimeError('All design variables must have at least 2 options') instead of the
    documented InvalidPatternEncoder 'does not apply' outcome"""
    d = _d(v)
    msg = d.get('msg') or v.get('detail', '')
    return 'All design variables must have at least 2 options' in msg and \
        (d.get('combo', [''])[0] == 'pattern' or 'set_settings' in v.get('sig', ''))


# ---- choice-constraint placement helpers (spec level, independent of adsg_core) ----

def _succ(spec, with_choices=True):
    succ = {}
    for u, v in spec.get('edges', []):
        succ.setdefault(u, []).append(v)
    if with_choices:
        for c in spec.get('choices', []):
            succ.setdefault(c['origin'], []).extend(c['opts'])
    return succ


def _reach(succ, seeds):
    seen = set(seeds)
    todo = list(seeds)
    while todo:
        u = todo.pop()
        for w in succ.get(u, []):
            if w not in seen:
                seen.add(w)
                todo.append(w)
    return seen


def _choice_constraints(spec):
    ch = {c['id']: c for c in spec.get('choices', [])}
    for con in spec.get('cons', []):
        members = sorted(m for m in con['on'] if m in ch)
        if len(members) >= 2:
            yield con, [ch[m] for m in members]


def _initially_active(spec):
    """Choices whose originating node is confirmed before any real decision: closure of the start nodes under
    derivation edges and single-option (forced) choices"""
    succ = _succ(spec, with_choices=False)
    for c in spec.get('choices', []):
        if len(c['opts']) == 1:
            succ.setdefault(c['origin'], []).append(c['opts'][0])
    perm = _reach(succ, spec['start'])
    return {c['id'] for c in spec.get('choices', []) if c['origin'] in perm}


def _choice_levels(spec):
    """Choice depth levels as used for the choice ordering: level 0 = choices reachable from the start nodes without
    passing another choice, level k+1 = choices first reached through an option of a level-k choice"""
    succ = _succ(spec, with_choices=False)
    levels = {}
    seen = set()
    frontier = set(spec['start'])
    level = 0
    while frontier and level < 50:
        reach = _reach(succ, frontier)-seen if seen else _reach(succ, frontier)
        seen |= reach
        nxt = set()
        for c in spec.get('choices', []):
            if c['id'] not in levels and c['origin'] in seen:
                levels[c['id']] = level
                nxt |= set(c['opts'])
        frontier = nxt-seen
        level += 1
    return levels


def _activation_against_id_order(spec, types):
    full = _succ(spec, with_choices=True)
    init = _initially_active(spec)
    for con, members in _choice_constraints(spec):
        if con['type'] not in types:
            continue
        for i, a in enumerate(members):
            for b in members[i+1:]:  # a has the lower id
                # activation follows the id order only if a is active from the start or b sits below an option of a
                if a['id'] not in init and b['origin'] not in _reach(full, a['opts']):
                    return True
    return False


def complete_ordering_constraint_against_id_order(case, v):
    """KF08: COMPLETE encoder, UNORDERED / UNORDERED_NOREPL constraint whose choices become active in another order than
    their id order (some lower-id constrained choice is not active from the start while a higher-id one does not sit
    below one of its options, so it can be activated earlier or independently): the ordering is applied in activation order: duplicated / missing architectures, NoOptionError while decoding"""
    spec = _spec(case)
    enc = case.get('enc') or case.get('mode') or _d(v).get('mode')
    if enc not in ('COMPLETE', None) and v.get('kind') != 'reachable_set_differs_from_complete' and \
            not _d(v).get('from_complete_enumeration'):
        return False   # (the last two compare the fast encoder with what the complete encoder lists / reaches)
    return _activation_against_id_order(spec, ('UNORDERED', 'UNORDERED_NOREPL'))


def fast_linked_first_choice_conditional(case, v):
    """KF09: FAST encoder collapses LINKED selection choices into the variable of the leader (first by choice depth level,
    then id); every other linked choice is 'forced' to index 0. A follower that can be active without the leader, or that
    is taken before the leader (lower id, active at the same time), pins the linked index to option 0"""
    spec = _spec(case)
    enc = case.get('enc') or case.get('mode') or _d(v).get('mode')
    if enc != 'FAST':
        return False
    levels = _choice_levels(spec)
    full = _succ(spec, with_choices=True)
    for con, members in _choice_constraints(spec):
        if con['type'] != 'LINKED':
            continue
        # the variable belongs to the 'leader': first by (choice depth level, id), as in the influence matrix ordering
        leader = min(members, key=lambda c: (levels.get(c['id'], 99), c['id']))
        below = _reach(full, leader['opts'])
        for f in members:
            if f is leader or f['origin'] in below:
                continue   # a follower below an option of the leader only becomes active after the leader was taken
            if levels.get(f['id'], 99) > 0 or f['id'] < leader['id']:
                return True   # follower can be active without / be taken before the leader: pinned to option 0
    return False


def linked_dv_first_member_absent(case, v):
    """KF10: LINKED design-variable nodes: the variable belongs to the first member (sort order); when that node is absent
    from an architecture the other, existing members receive no value"""
    d = _d(v)
    members = sorted(d.get('all_members') or [])
    return bool(members) and members[0] not in (d.get('present') or [])


# ---- connection / grouping helpers ----

def _groups(spec):
    for cc in spec.get('conns', []):
        for side in ('src', 'tgt'):
            for it in cc[side]:
                if isinstance(it, dict):
                    yield cc, side, it


def _open_ended(spec, name):
    d = spec['nodes'][name].get('deg')
    return isinstance(d, dict) and d.get('max') is None


def grouping_minimum_unreachable(case, v):
    """KF11: a connector grouping node with an open-ended member: the degree override of an existence pattern is
    range(sum of minima, reachable maximum + 1), which is an empty list when the minima exceed what the opposite side can
    supply; building the matrix generator then raises ValueError (max of empty sequence) instead of marking the scenario
    infeasible"""
    spec = _spec(case)
    msg = _msg(v)
    return 'max() iterable argument is empty' in msg and any(
        any(_open_ended(spec, m) for m in g['members']) for _, _, g in _groups(spec))


def open_ended_group_parallel_limit(case, v):
    """KF12: a grouping node with an open-ended member gets a finite degree override list per existence pattern at
    processor level; the finite maximum raises the automatic parallel-connection limit above the limit that the same
    graph uses at DSG level (iter_conn_edges / validate_conn_edges): the processor decodes connection sets the DSG API
    rejects"""
    spec = _spec(case)
    for cc in spec.get('conns', []):
        def item_info(it):
            if isinstance(it, dict):
                mem = it['members']
                return it['grp'], any(_open_ended(spec, m) for m in mem), bool(spec['nodes'][mem[0]].get('rep')), True
            return it, _open_ended(spec, it), bool(spec['nodes'][it].get('rep')), False
        excl = {tuple(e) for e in cc.get('excl', [])}
        sides = {side: [item_info(it) for it in cc[side]] for side in ('src', 'tgt')}
        # the only connection sets the raised limit adds have > limit parallel edges between two repeatable open-ended
        # connectors that may be connected
        pair = any(so and sr and to and tr and (sn, tn) not in excl
                   for sn, so, sr, _ in sides['src'] for tn, to, tr, _ in sides['tgt'])
        if not pair:
            continue
        for side, other in (('src', 'tgt'), ('tgt', 'src')):
            for gn, g_open, g_rep, is_grp in sides[side]:
                if not (is_grp and g_open):
                    continue
                # upper bound of the override list of the group: what the opposite side can supply under the base limit
                n_max = 0
                for on, _, o_rep, _ in sides[other]:
                    if ((gn, on) if side == 'src' else (on, gn)) in excl:
                        continue
                    n_max += 2 if (g_rep and o_rep) else 1
                # a minimum above that bound is kept as the only (formerly unreachable) degree of the override list
                g = [it for it in cc[side] if isinstance(it, dict) and it['grp'] == gn][0]
                g_min = sum((d['min'] if isinstance(d, dict) else min(d))
                            for d in (spec['nodes'][m].get('deg') for m in g['members']))
                if max(n_max, g_min) >= 3:
                    return True
                # ... and the reverse: the cap of the override list comes from the base graph's limit (2 when both sides
                # are open-ended there), while in a scenario where the opposite group lost its open-ended member its
                # finite members allow more (e.g. [1, 3]): the processor then LOSES the sets with 3 parallel connections
                for it in cc[other]:
                    if isinstance(it, dict) and any(_open_ended(spec, m) for m in it['members']):
                        fin = [max(spec['nodes'][m]['deg']) for m in it['members']
                               if isinstance(spec['nodes'][m].get('deg'), list)]
                        if fin and sum(fin) >= 3:
                            return True
    return False


def pattern_encoder_impute_at_graph_level(case, v):
    """KF06 at graph level: the selected pattern encoder raises 'Pattern encoder should never (automatically) impute'"""
    return pattern_encoder_cannot_decode_declared_value(case, v)


def _permanent_nodes(spec):
    return _reach(_succ(spec, with_choices=False), spec['start'])


def grouping_degree_on_shared_node(case, v):
    """KF13: the aggregated degree of a ConnectorDegreeGroupingNode is stored on the node object that all graphs derived
    from one model share; it is recomputed whenever any graph is constructed. An instance created earlier (or served from
    a cache) is then judged with the degrees of a later graph: feasible instances flip to infeasible. Needs a grouping
    node with a member that does not exist in every architecture."""
    spec = _spec(case)
    perm = _permanent_nodes(spec)
    for _, _, g in _groups(spec):
        if any(m not in perm for m in g['members']):
            return True
    return False


def _option_with_other_deriver(spec):
    """Some option node of a selection choice is also derived in another way (derivation in-edge or option of another
    choice)"""
    n_in = {}
    for u, w in spec.get('edges', []):
        n_in[w] = n_in.get(w, 0)+1
    n_opt = {}
    origins_of = {}
    for c in spec.get('choices', []):
        for o in c['opts']:
            n_opt[o] = n_opt.get(o, 0)+1
            origins_of.setdefault(o, []).append(c['origin'])
    has_out = {u for u, _ in spec.get('edges', [])} | {c['origin'] for c in spec.get('choices', [])}

    perm = _permanent_nodes(spec)

    def harmless(o):
        # a leaf option node (derives nothing, carries no choice, no derivation in-edge) shared by choices on DIFFERENT,
        # PERMANENT originating nodes: whichever choice selects it, the same is confirmed (only the node itself), so the per-node
        # bookkeeping of the influence matrix cannot mix anything up (unless the node takes part in an incompatibility:
        # the 'infeasible option' flag is per node too)
        return n_in.get(o, 0) == 0 and o not in has_out and \
            len(set(origins_of[o])) == len(origins_of[o]) and not any(o in p_ for p_ in spec.get('incompat', [])) and \
            all(org in perm for org in origins_of[o])
    return any((n_opt[o] > 1 or n_in.get(o, 0) > 0) and not harmless(o) for o in n_opt)


def influence_matrix_shared_option(case, v):
    """KF01 seen through the processor: with an option node that is also derived another way the influence-matrix analysis
    mis-tracks node existence / choice activation: RuntimeError('Unexpected inactive choice' | 'Des var node not found!' |
    'Connection choice not does not exist!'), architectures missing from the enumeration, wrong activeness"""
    spec = _spec(case)
    if not _option_with_other_deriver(spec):
        return False
    msg = _msg(v)
    if v['kind'] in ('decode_failed', 'row_decode_failed', 'redecode_failed'):
        return any(t in msg for t in ('Unexpected inactive choice', 'Des var node not found', 'Connection choice not does',
                                      'Infeasible graph specified', 'No more feasible architectures',
                                      'Node not part of connection choice', 'is not an option of choice node'))
    return True


def complete_no_scenario_after_incompatibility(case, v):
    """KF14: COMPLETE analyzer: an option whose forced consequences are incompatible leaves a choice scenario without
    combinations: IndexError in _get_n_combinations (e.g. c0:n0->{n1,n2}, c1:n1->{n2}, incompatibility n1-n2)"""
    sig = v.get('sig', '')
    return bool(_spec(case).get('incompat')) and 'IndexError@optimization/hierarchy/complete.py' in sig and \
        ('_get_n_combinations' in sig or '_merge_scenarios' in sig)


def initial_graph_infeasible_conditional_target(case, v):
    """KF15: the feasibility test of a graph whose connection choice lost all its sources judges the remaining target
    connectors by degree only, also when the target exists conditionally: GraphProcessor rejects the graph as 'not feasible
    to begin with' although architectures without that target exist"""
    spec = _spec(case)
    return bool(spec.get('conns')) and 'not feasible to begin with' in _msg(v)


def fast_zero_option_choice(case, v):
    """KF16: FAST encoder multiplies the option counts of all selection choices as the number of combinations; a
    (conditionally active) choice whose options were all removed by incompatibilities makes it 0 and construction fails with
    'There are no feasible graphs to begin with!'"""
    spec = _spec(case)
    enc = case.get('enc') or case.get('mode') or _d(v).get('enc')
    return enc == 'FAST' and bool(spec.get('incompat')) and 'There are no feasible graphs' in _msg(v)


def same_origin_choices_share_two_options(case, v):
    """KF18: two selection choices on the same originating node that share >= 2 option nodes: assigning (A, B) or (B, A)
    yields the identical graph (same added origin->option edges), yet both are encoded/enumerated as different designs"""
    spec = _spec(case)
    ch = spec.get('choices', [])
    for i, a in enumerate(ch):
        for b in ch[i+1:]:
            if a['origin'] == b['origin'] and len(set(a['opts']) & set(b['opts'])) >= 2:
                return True
    return False


def eager_direct_hit_activeness_graph_level(case, v):
    """KF02 at graph level: the connection variables of a decoded design are all reported active when the vector hits a
    stored design vector directly, and partly inactive when the same design is reached through correction"""
    spec = _spec(case)
    d = _d(v)
    if not spec.get('conns'):
        return False
    if v['kind'] == 'not_a_fixed_point':
        return d.get('what') == 'activeness'
    if v['kind'] == 'unconditional_variable_inactive':
        # a connection variable of an existence pattern with a single matrix is inactive, yet not flagged conditional
        return d.get('kind_var') == 'conn'
    diff = d.get('diff_kinds')
    if diff is not None:
        return len(diff) > 0 and set(diff) <= {'conn'}   # only connection variables differ in activeness
    kinds = d.get('kinds')
    return False if kinds is None else ('conn' in kinds)


def fast_constraint_autoresolved_choice_inactive(case, v):
    """KF20: FAST encoder with a choice constraint over selection choices or an incompatibility: when taking one choice
    leaves another (permanent) choice with a single option, that choice is resolved automatically and its variable is reported inactive at value 0,
    although the choice is permanent (not flagged conditionally active) and took another option"""
    spec = _spec(case)
    enc = case.get('enc') or case.get('mode') or _d(v).get('enc')
    return enc == 'FAST' and (any(True for _ in _choice_constraints(spec)) or bool(spec.get('incompat')))


def pattern_encoder_variables_for_single_matrix(case, v):
    """KF21: a pattern encoder is selected for settings that admit a single connection set overall and still declares
    design variables (each with one usable value)"""
    d = _d(v)
    return (d.get('n_total') is not None and d.get('n_total') <= 1) and 'Pattern' in v.get('detail', '')


def connection_choice_without_any_source(case, v):
    """KF22: a connection choice none of whose source connectors exists in any architecture (e.g. their parents are
    incompatible with a start node) is dropped when the graph is initialised; target connectors that require a connection
    then make some selection scenarios infeasible only at graph level: the COMPLETE enumeration still lists those
    scenarios and decoding corrects them to another design"""
    from . import refsel
    spec = _spec(case)
    if not spec.get('conns'):
        return False
    try:
        archs = refsel.Model(spec).sel_architectures(arch_max=2000)
    except Exception:  # noqa
        return False
    for cc in spec['conns']:
        srcs = [it['grp'] if isinstance(it, dict) else it for it in cc['src']]
        if not any(s_ in a['nodes'] for a in archs for s_ in srcs):
            return True
    return False


def sup_existence_mapping_same_context_string(case, v):
    """KF23: SupExistenceMapping (and the inactive-choice test of SupSelChoiceOptionMapping) identify source nodes by
    their context string; two distinct source nodes with the same displayed name and domain (design-variable nodes
    'dv0' under two different parents) are taken for one another: a mapping keyed on the absent one sees it as existing"""
    src = case.get('src') or {}
    labels = {}
    for n, nd in src.get('nodes', {}).items():
        if nd.get('k') == 'dv':
            labels.setdefault(nd.get('label') or n, []).append(n)
    twins = {n for group in labels.values() if len(group) > 1 for n in group}
    if not twins:
        return False
    for ch in case.get('sup', []):
        m = ch.get('map') or {}
        if m.get('kind') == 'exist' and any(k in twins for k in m.get('order', [])):
            return True
    return False


def nested_limiter_interrupt_during_pool_close(case, v):
    """KF24: nested time limiters whose inner limit expires shortly after the outer one: the outer interrupt can reach the
    worker while the inner limiter closes its thread pool; the inner worker then keeps running after the outer call
    returned. Only nested schedules in which the inner limiter times out by itself (inner limit < function duration)
    and the outer limit is the shorter one"""
    if case.get('kind') != 'nested_inner_times_out':
        return False
    limit = case['limit_ms']/1000.
    dur = max(0.001, limit+case['delta_ms']/1000.)
    inner_limit = dur/2
    return inner_limit >= limit-0.05   # the inner expiry falls at or behind the outer one (within scheduling noise)
