"""Class predicates of the known findings (known_findings.json). Each takes (case, violation) and decides whether the
violation belongs to the finding's specific class of inputs / call sites. Kept deliberately narrow."""


def _spec(case):
    return case.get('spec', case)


def _msg(v):
    return (v.get('data') or {}).get('msg', '') or v.get('detail', '')


def unselected_option_confirmed_elsewhere(case, v):
    """KF01: a node that is a declared option of a taken selection choice, was not the selected option, but is confirmed
    through another derivation path (the influence matrix then considers it removed: choices behind it never become
    active)."""
    spec = _spec(case)
    data = v.get('data') or {}
    nodes = set(data.get('nodes') or [])
    sel = {tuple(e) for e in (data.get('sel') or [])}
    if not nodes:
        return False
    for c in spec.get('choices', []):
        if c['origin'] not in nodes:
            continue
        selected = {o for o in c['opts'] if (c['origin'], o) in sel}
        if 'assign' in data and c['id'] in data['assign']:
            selected = {data['assign'][c['id']]}
        if not selected:
            continue
        if any(o in nodes and o not in selected for o in c['opts']):
            return True
    return False


def _d(v):
    return v.get('data') or {}


def eager_direct_hit_reports_inactive_as_active(case, v):
    """KF02: eager (matrix-table) encoders: a vector that hits a stored design vector directly is returned with all
    leading variables active, while the same matrix reached through imputation reports the stored inactive (-1)
    variables as inactive. Same vector, same matrix, strictly more variables active on the direct hit."""
    d = _d(v)
    return d.get('group') in ('eager', 'enum') and bool(d.get('same_vec')) and bool(d.get('same_mat')) and \
        bool(d.get('more_active'))


def zero_variables_listed_with_surplus_column(case, v):
    """KF03: coding without declared variables (exactly one matrix): get_all_design_vectors lists a 1-column vector"""
    d = _d(v)
    return d.get('n_dv') == 0


def eager_delta_closest_imputer_narrow_pattern(case, v):
    """KF04: non-default eager imputers (DeltaImputer, ClosestImputer) with several existence patterns whose design
    vectors have different widths: broadcast error / empty matrix returned"""
    d = _d(v)
    return d.get('group') in ('eager', 'enum') and d.get('imputer') in ('DeltaImputer', 'ClosestImputer') and \
        (d.get('n_patterns') or 0) > 1


def lazy_encoder_declares_unused_value(case, v):
    """KF05: lazy encoders derive their variables from per-slot bounds without enumerating: a declared variable can have
    a single value that is ever used"""
    d = _d(v)
    return d.get('group') == 'lazy'


def pattern_encoder_cannot_decode_declared_value(case, v):
    """KF06: a pattern encoder accepted the settings but raises 'Pattern encoder should never (automatically) impute'
    for declared values (settings with existence patterns that absent nodes or override degree lists)"""
    d = _d(v)
    return d.get('group') == 'pattern' and 'Pattern encoder should never' in (d.get('msg') or v.get('detail', ''))


def pattern_encoder_single_option_variable(case, v):
    """KF07: a pattern encoder matches the settings but its encoding has a variable with one option; LazyEncoder
    .set_settings then raises RuntimeError('All design variables must have at least 2 options') instead of the
    documented InvalidPatternEncoder 'does not apply' outcome"""
    d = _d(v)
    msg = d.get('msg') or v.get('detail', '')
    return 'All design variables must have at least 2 options' in msg and \
        (d.get('combo', [''])[0] == 'pattern' or 'set_settings' in v.get('sig', ''))
