"""CLI: python -m vf.run <ID> --tier quick|thorough [--replay FILE]

Exit 0: property held on everything explored. Exit 1 + 'VIOLATION property=<id> replay=<path>'. Exit 2: harness error /
inconclusive (never prints VIOLATION).
"""
import os
import sys
import json
import time
import argparse
import importlib
import subprocess
import tempfile
import shutil

VERIF = os.path.dirname(os.path.dirname(os.path.abspath(__file__)))
PY = os.environ.get('VF_PYTHON', '/venv/bin/python')


def main():
    ap = argparse.ArgumentParser()
    ap.add_argument('check')
    ap.add_argument('--tier', default=os.environ.get('VERIF_TIER', 'quick'), choices=['quick', 'thorough'])
    ap.add_argument('--replay', default=None)
    ap.add_argument('--shards', type=int, default=None)
    ap.add_argument('--examples', type=int, default=None)
    ap.add_argument('--no-evidence', action='store_true')
    args = ap.parse_args()
    prop = args.check.upper()
    seed = int(os.environ.get('VERIF_SEED', '1') or 1)
    t0 = time.time()

    check = importlib.import_module(f'vf.checks.{prop.lower()}')
    n_cpu = os.cpu_count() or 4
    nshards = args.shards or getattr(check, 'SHARDS', {}).get(args.tier) or min(16, n_cpu)
    if args.replay:
        nshards = 1

    env = dict(os.environ)
    repo = env.get('VF_REPO', '/repo')
    env['PYTHONPATH'] = os.pathsep.join([repo, VERIF])
    env['PYTHONHASHSEED'] = '0'
    env.setdefault('NUMBA_NUM_THREADS', '1')
    env.setdefault('OMP_NUM_THREADS', '1')
    env.setdefault('OPENBLAS_NUM_THREADS', '1')
    env.setdefault('MKL_NUM_THREADS', '1')

    tmp = tempfile.mkdtemp(prefix='vf_run_')
    procs = []
    try:
        for i in range(nshards):
            out = os.path.join(tmp, f'shard{i}.json')
            cmd = [PY, '-m', 'vf.shard', '--check', prop, '--tier', args.tier, '--shard', str(i),
                   '--nshards', str(nshards), '--seed', str(seed), '--out', out]
            if args.replay:
                cmd += ['--replay', os.path.abspath(args.replay)]
            if args.examples is not None:
                cmd += ['--examples', str(args.examples)]
            log = open(os.path.join(tmp, f'shard{i}.log'), 'w')
            procs.append((subprocess.Popen(cmd, cwd=VERIF, env=env, stdout=log, stderr=subprocess.STDOUT), out, log))

        # wall-clock guard (a hit means inconclusive = harness error, never a violation): a hung shard must not hang the check
        max_wall = float(os.environ.get('VF_MAX_WALL_S') or (3600 if args.tier == 'quick' else 4*3600))
        results, errors = [], []
        for p, out, log in procs:
            try:
                p.wait(timeout=(max(1.0, max_wall-(time.time()-t0)) if max_wall else None))
            except subprocess.TimeoutExpired:
                p.kill()
                errors.append('inconclusive: wall-clock guard VF_MAX_WALL_S hit')
                continue
            finally:
                log.close()
            if os.path.exists(out):
                with open(out) as fp:
                    data = json.load(fp)
                if 'harness_error' in data:
                    errors.append(data['harness_error'])
                else:
                    results.append(data)
            else:
                with open(log.name) as fp:
                    errors.append(f'shard produced no result (exit {p.returncode}):\n'+fp.read()[-3000:])
    finally:
        for p, _, _ in procs:
            if p.poll() is None:
                p.kill()
        shutil.rmtree(tmp, ignore_errors=True)

    merged = merge(results)
    wall = time.time()-t0
    if not args.no_evidence and not args.replay:
        write_evidence(prop, check, args.tier, seed, merged, wall, nshards, errors)

    if 'survey' in merged['extra']:
        os.makedirs('/tmp/vf_survey', exist_ok=True)
        with open(f'/tmp/vf_survey/{prop}.json', 'w') as fp:
            json.dump(merged['extra']['survey'], fp, indent=1, default=str)
        for sig, ent in sorted(merged['extra']['survey'].items(), key=lambda kv: -kv[1]['count']):
            print(f'SURVEY {ent["count"]:5d} {sig}  | {ent.get("detail", "")[:160]}')
    # one KNOWN-FINDING line per listed finding that was met in this run (by its witness replay or by generated cases)
    lines = set(merged['known_lines'])
    from . import core
    by_id = {f["id"]: f for f in core.load_known(prop)}
    for fid, n in sorted(merged['known_hits'].items()):
        if n > 0 and fid in by_id and not any(f' {fid} ' in ln for ln in lines):
            lines.add(f'KNOWN-FINDING: property={prop} {fid} {by_id[fid]["what"]}')
    for line in sorted(lines):
        print(line)
    print(f'[{prop}] tier={args.tier} seed={seed} shards={nshards} cases={merged["cases"]} '
          f'evaluations={merged["evaluations"]} distinct_nontrivial={len(merged["nontrivial"])} '
          f'known_hits={merged["known_hits"]} excluded_by_bound={merged["excluded_by_bound"]} wall={wall:.0f}s')
    if merged['violations']:
        seen = set()
        for v in merged['violations']:
            if v['sig'] in seen:
                continue
            seen.add(v['sig'])
            print(f'VIOLATION property={prop} replay={v["replay"]}')
            print(f'  kind={v["kind"]} sig={v["sig"]}\n  {v["detail"][:600]}')
        sys.exit(1)
    if errors:
        for e in errors:
            print('HARNESS ERROR:', e, file=sys.stderr)
        sys.exit(2)
    sys.exit(0)


def merge(results):
    m = {'cases': 0, 'evaluations': 0, 'nontrivial': set(), 'classes': {}, 'samples': [], 'known_hits': {},
         'excluded_by_bound': 0, 'violations': [], 'known_lines': [], 'extra': {}, 'exhaustive_parts': []}
    for r in results:
        m['cases'] += r['cases']
        m['evaluations'] += r['evaluations']
        m['nontrivial'] |= set(r['nontrivial'])
        for k, v in r['classes'].items():
            m['classes'][k] = m['classes'].get(k, 0)+v
        m['samples'] += r['samples'][:2]
        for k, v in r['known_hits'].items():
            m['known_hits'][k] = m['known_hits'].get(k, 0)+v
        m['excluded_by_bound'] += r['excluded_by_bound']
        m['violations'] += r['violations']
        m['known_lines'] += r['known_lines']
        m['exhaustive_parts'] += r.get('exhaustive_parts', [])
        for k, v in r.get('extra', {}).items():
            if k == 'survey':
                sv = m['extra'].setdefault('survey', {})
                for sig, ent in v.items():
                    cur = sv.setdefault(sig, {'count': 0, 'size': 10**9})
                    cur['count'] += ent['count']
                    if ent['size'] < cur['size']:
                        cur.update({kk: vv for kk, vv in ent.items() if kk != 'count'})
            elif isinstance(v, (int, float)):
                m['extra'][k] = m['extra'].get(k, 0)+v
            else:
                m['extra'].setdefault(k, v)
    return m


def write_evidence(prop, check, tier, seed, m, wall, nshards, errors):
    samples = m['samples'][:5]
    ev = {
        'property_id': prop, 'tier': tier, 'seed': seed, 'level': 'exploration',
        'coverage': {
            'evaluations': int(m['evaluations']),
            'cases': int(m['cases']),
            'distinct_nontrivial': len(m['nontrivial']),
            'rule': check.RULE,
            'samples': samples,
            'classes': dict(sorted(m['classes'].items())),
            'known_finding_hits': m['known_hits'],
            'excluded_by_bound': m['excluded_by_bound'],
            'exhaustive': bool(getattr(check, 'EXHAUSTIVE', {}).get(tier, False)),
            'shards': nshards,
            'extra': m['extra'],
        },
        'assumptions': list(getattr(check, 'ASSUMPTIONS', [])) + [
            'reference models vf/refsel.py, vf/refconn.py encode docs/theory.md (self-tested against its examples)',
            'node ids are made deterministic by a harness-side patch of DSGNode.update_node_id (salt in the spec)',
        ],
        'wall_s': round(wall, 2),
        'violations': len({v['sig'] for v in m['violations']}),
    }
    if errors:
        ev['coverage']['harness_errors'] = [e[:500] for e in errors]
    os.makedirs(os.path.join(VERIF, 'evidence'), exist_ok=True)
    with open(os.path.join(VERIF, 'evidence', f'{prop}.json'), 'w') as fp:
        json.dump(ev, fp, indent=1, sort_keys=True, default=str)


if __name__ == '__main__':
    main()
