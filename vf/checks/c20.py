"""C20 - a supplementary graph resolves to the mapped option for each source architecture (DESIGN.md 6/C20)"""
from hypothesis import strategies as st
from ..strat import ints
from .. import specs, refsel, build, dsgwalk
from ..core import Result, viol, exc_sig

ID = 'C20'
RULE = ('cases = generated source G-SEL spec x all its feasible final instances (obtained through the DSG API, all choice '
        'orders) x a generated supplementary graph with 1-3 selection choices (nested: a choice under an option of an '
        'earlier one) each mapped by an option mapping (incl. the None entry for inactive source choices) or an ordered '
        'existence mapping, mappings registered in a generated order, nested choices also below a node that options of two '
        'different choices derive, in a third of the positive cases a second supplementary graph is chained onto a choice of '
        'the first and resolved from the first one\'s result; negative variants: unmapped choice, duplicate mapping, missing None, non-final source; oracle '
        '= mapping model on the reference architecture (expected option per active supplementary choice, resolved node '
        'set = supplementary closure), errors expected for the negative variants, SupResolveError accepted only where the '
        'model says the selected option is ambiguous; one evaluation = one (source architecture, resolve); non-trivial = '
        'a nested supplementary choice or a source choice inactive in >= 1 architecture; distinct by sha1(case)')
FUZZ_MODULES = ['adsg_core.graph.sup.dsg', 'adsg_core.graph.choices']   # thorough tier: atheris campaign over these modules (vf/fuzz.py)
FUZZ_RUNS = 3000
BUDGET = {'quick': 800, 'thorough': 20000}


@st.composite
def _case(draw, tier):
    src = draw(specs.sel_spec(min_nodes=3, max_nodes=8, max_incompat=1))
    if draw(ints(0, 2)) == 0:
        # design-variable and metric nodes in the source (their context string differs from their displayed string):
        # they can be keys of an existence mapping like any other source node
        src = draw(specs.add_dvs(src, max_dv=2))
        src = draw(specs.add_metrics(src, max_met=2))
    if not src['choices']:
        src['nodes']['zz'] = {'k': 'gen'}
        src['nodes']['zy'] = {'k': 'gen'}
        src['choices'].append({'id': 'c0', 'origin': src['start'][0], 'opts': ['zz', 'zy']})
    n_sup = draw(ints(1, 3))
    sup_choices = []
    for i in range(n_sup):
        n_opts = draw(ints(2, 3))
        origin = 'r'
        r = draw(ints(0, 3)) if i > 0 else 0
        if r in (1, 2):
            j = draw(ints(0, i-1))
            origin = f'u{j}o{draw(ints(0, sup_choices[j]["n_opts"]-1))}'
        elif r == 3:
            # below a node that options of (up to) two different earlier choices derive
            origin = 'sh'
        kind = draw(st.sampled_from(['option', 'option', 'exist']))
        if kind == 'option':
            multi = [c for c in src['choices'] if len(c['opts']) >= 2]
            sc = draw(st.sampled_from(multi or src['choices']))
            table = {o: draw(ints(0, n_opts-1)) for o in sc['opts']}
            table['None'] = draw(ints(0, n_opts-1))
            m = {'kind': 'option', 'src_choice': sc['id'], 'table': table}
        else:
            names = list(src['nodes'])
            special = [n for n, nd in src['nodes'].items() if nd['k'] in ('dv', 'met')]
            if special and draw(st.booleans()):
                names = special+names[:2]
            order = draw(st.lists(st.sampled_from(names), min_size=1, max_size=3, unique=True))
            m = {'kind': 'exist', 'order': order, 'table': [draw(ints(0, n_opts-1)) for _ in order],
                 'none': draw(ints(0, n_opts-1))}
        sup_choices.append({'id': f'u{i}', 'origin': origin, 'n_opts': n_opts, 'map': m,
                            'child': draw(st.booleans())})
    sup_edges = []
    if any(ch['origin'] == 'sh' for ch in sup_choices):
        first_sh = min(i for i, ch in enumerate(sup_choices) if ch['origin'] == 'sh')
        for _ in range(draw(ints(1, 2))):
            j = draw(ints(0, first_sh-1))
            if sup_choices[j]['origin'] == 'sh':
                continue
            e = [f'u{j}o{draw(ints(0, sup_choices[j]["n_opts"]-1))}', 'sh']
            if e not in sup_edges:
                sup_edges.append(e)
        later = [i for i, ch in enumerate(sup_choices) if i > first_sh and ch['origin'] == 'r']
        if later and draw(st.booleans()):
            j = draw(st.sampled_from(later))
            sup_edges.append([f'u{j}o{draw(ints(0, sup_choices[j]["n_opts"]-1))}', 'sh'])
        if not sup_edges:
            sup_edges.append(['u0o0', 'sh'])
    neg = draw(st.sampled_from([None, None, None, None, 'unmapped', 'dup', 'missing_none', 'nonfinal']))
    # the order in which the mappings are registered (add_mapping) is free
    map_order = draw(st.permutations(list(range(n_sup))))
    # chained: a second supplementary graph whose source is the first one (1 in 3 of the positive cases)
    chain = None
    if neg is None and draw(ints(0, 2)) == 0:
        j = draw(ints(0, n_sup-1))
        n2 = draw(ints(2, 3))
        chain = {'on': j, 'n_opts': n2,
                 'table': {str(o): draw(ints(0, n2-1)) for o in range(sup_choices[j]['n_opts'])},
                 'none': draw(ints(0, n2-1))}
    return {'src': src, 'sup': sup_choices, 'neg': neg, 'sup_edges': sup_edges, 'map_order': list(map_order),
            'chain': chain}


def strategy(tier):
    return _case(tier)


def build_sup(case, b_src):
    """Returns (sup_dsg after set_start_nodes, nodes map, choice map) or raises"""
    from adsg_core.graph.sup import SupDSG, SupNode, SupSelChoiceOptionMapping, SupExistenceMapping
    sup = SupDSG()
    nodes = {'r': SupNode('r')}
    sup.add_node(nodes['r'])
    choice_nodes = {}
    for ch in case['sup']:
        opts = []
        for j in range(ch['n_opts']):
            nm = f'{ch["id"]}o{j}'
            nodes[nm] = SupNode(nm)
            opts.append(nodes[nm])
            if ch['child']:
                nodes[nm+'c'] = SupNode(nm+'c')
                sup.add_edge(nodes[nm], nodes[nm+'c'])
        if ch['origin'] == 'sh' and 'sh' not in nodes:
            nodes['sh'] = SupNode('sh')
        choice_nodes[ch['id']] = sup.add_selection_choice(ch['id'], nodes[ch['origin']], opts)
    for u, v in case.get('sup_edges', []):
        sup.add_edge(nodes[u], nodes[v])
    neg = case.get('neg')
    order = case.get('map_order') or list(range(len(case['sup'])))
    for i in order:
        ch = case['sup'][i]
        if neg == 'unmapped' and i == len(case['sup'])-1:
            continue
        m = ch['map']
        if m['kind'] == 'option':
            table = {}
            for k, v in m['table'].items():
                if k == 'None':
                    if neg == 'missing_none':
                        continue
                    table[None] = nodes[f'{ch["id"]}o{v}']
                else:
                    table[b_src.node[k]] = nodes[f'{ch["id"]}o{v}']
            mapping = SupSelChoiceOptionMapping(b_src.choice[m['src_choice']], table)
        else:
            table = {}
            for k, v in zip(m['order'], m['table']):
                table[b_src.node[k]] = nodes[f'{ch["id"]}o{v}']
            table[None] = nodes[f'{ch["id"]}o{m["none"]}']
            mapping = SupExistenceMapping(table)
        sup.add_mapping(choice_nodes[ch['id']], b_src.dsg, mapping)
        if neg == 'dup' and i == order[0]:
            sup.add_mapping(choice_nodes[ch['id']], b_src.dsg, mapping)
    sup = sup.set_start_nodes({nodes['r']})
    return sup, nodes, choice_nodes


def build_chain(case, sup, nodes, choice_nodes):
    """Second-level supplementary graph: one choice mapped onto choice `on` of the first supplementary graph"""
    from adsg_core.graph.sup import SupDSG, SupNode, SupSelChoiceOptionMapping
    ch = case['chain']
    tgt = case['sup'][ch['on']]
    sup2 = SupDSG()
    root = SupNode('r2')
    sup2.add_node(root)
    opts = [SupNode(f'w{j}') for j in range(ch['n_opts'])]
    cn = sup2.add_selection_choice('w', root, opts)
    table = {nodes[f'{tgt["id"]}o{k}']: opts[v] for k, v in ((int(k), v) for k, v in ch['table'].items())}
    table[None] = opts[ch['none']]
    sup2.add_mapping(cn, sup, SupSelChoiceOptionMapping(choice_nodes[tgt['id']], table))
    return sup2.set_start_nodes({root})


def expected_chain(case, exp_nodes):
    ch = case['chain']
    tgt = case['sup'][ch['on']]
    sel = [k for k in range(tgt['n_opts']) if f'{tgt["id"]}o{k}' in exp_nodes]
    if tgt['origin'] not in exp_nodes:
        idx = ch['none']
    elif len(sel) != 1:
        return None
    else:
        idx = ch['table'][str(sel[0])]
    return {'r2', f'w{idx}'}


def expected(case, src_spec, names, sel_edges):
    """Mapping model: returns (expected node names of the resolved sup graph, ambiguous flag)"""
    k = {'r'}
    ambiguous = False
    src_choices = {c['id']: c for c in src_spec['choices']}
    base_out = {}
    for u, v in src_spec['edges']:
        base_out.setdefault(u, set()).add(v)
    for u, v in sel_edges:
        base_out.setdefault(u, set()).add(v)
    # the selected option of a mapped source choice cannot be told from the architecture (two of its options are wired
    # from its originating node, e.g. by another choice on the same node): any outcome is accepted, also for a
    # supplementary choice that turns out inactive (mappings may be evaluated before their choice is known to be inactive)
    for ch in case['sup']:
        m = ch['map']
        if m['kind'] == 'option':
            sc = src_choices[m['src_choice']]
            if sc['origin'] in names and len(base_out.get(sc['origin'], set()) & set(sc['opts'])) != 1:
                return None, True
    changed = True
    done = set()
    while changed:
        changed = False
        for ch in case['sup']:
            if ch['id'] in done or ch['origin'] not in k:
                continue
            m = ch['map']
            if m['kind'] == 'option':
                sc = src_choices[m['src_choice']]
                if sc['origin'] not in names:
                    idx = m['table'].get('None')
                else:
                    out = base_out.get(sc['origin'], set()) & set(sc['opts'])
                    if len(out) != 1:
                        ambiguous = True
                        return None, True
                    idx = m['table'][list(out)[0]]
            else:
                idx = m['none']
                for nm, v in zip(m['order'], m['table']):
                    if nm in names:
                        idx = v
                        break
            opt = f'{ch["id"]}o{idx}'
            k.add(opt)
            if ch['child']:
                k.add(opt+'c')
            for u, v in case.get('sup_edges', []):
                if u == opt:
                    k.add(v)
            done.add(ch['id'])
            changed = True
    return k, ambiguous


def check_case(case):
    from adsg_core.graph.sup import SupResolveError
    res = Result()
    src_spec = case['src']
    neg = case.get('neg')
    res.classes = specs.labels(src_spec)+[f'neg_{neg}', f'sup_choices{len(case["sup"])}']
    model = refsel.Model(src_spec)
    try:
        archs = model.sel_architectures(arch_max=300)
    except refsel.TooLarge:
        res.excluded = True
        return res
    w = dsgwalk.walk(src_spec, max_states=1500)
    if w.build_exc is not None or w.truncated:
        res.excluded = True
        return res
    leaves = [l for l in w.leaves if l['feasible'] and l['final']]
    b = w.b
    d0 = {'neg': neg}
    # is some mapped source choice inactive somewhere / conditional?
    inactive_somewhere = False
    for ch in case['sup']:
        if ch['map']['kind'] == 'option':
            org = [c for c in src_spec['choices'] if c['id'] == ch['map']['src_choice']][0]['origin']
            if any(org not in a['nodes'] for a in archs):
                inactive_somewhere = True
    nested = any(ch['origin'] != 'r' for ch in case['sup'])
    shared = any(ch['origin'] == 'sh' for ch in case['sup'])

    try:
        sup, nodes, choice_nodes = build_sup(case, b)
        built = True
        build_err = None
    except RuntimeError as e:
        built = False
        build_err = e
    except Exception as e:  # noqa
        if exc_sig(e).endswith('@harness'):
            raise
        res.add(viol('sup_build_unexpected_exception', f'{type(e).__name__}: {e}',
                     sig=f'sup_build_unexpected_exception:{exc_sig(e)}', data=d0))
        return res
    res.classes.append('sup_built' if built else 'sup_rejected')
    if neg in ('unmapped', 'dup'):
        if built:
            res.add(viol('incomplete_or_duplicate_mapping_accepted', f'{neg}: SupDSG initialised without error', data=d0))
        res.evaluations = 1
        res.nontrivial = nested or inactive_somewhere
        res.sample = {'case': case, 'outcome': 'rejected' if not built else 'accepted'}
        return res
    if not built:
        # positive case rejected: allowed only if the model agrees something is wrong
        ok_reason = False
        if neg == 'missing_none':
            ok_reason = True   # rejecting a mapping without None is always acceptable (may be required)
        msg = str(build_err)
        if 'Source choice node not in source DSG' in msg or 'Not all source choice option nodes mapped' in msg or \
                'Source nodes not in source DSG' in msg:
            ok_reason = True   # the source choice / node was removed or auto-resolved while initialising the source
        if not ok_reason:
            res.add(viol('complete_mapping_rejected', f'{type(build_err).__name__}: {build_err}', data=dict(d0, msg=msg[:300])))
        res.sample = {'case': case, 'outcome': f'rejected: {msg[:100]}'}
        return res

    sup2 = None
    if case.get('chain'):
        try:
            sup2 = build_chain(case, sup, nodes, choice_nodes)
            res.classes.append('chained_sup_built')
        except RuntimeError as e:
            # the first-level choice was auto-resolved / removed while initialising: nothing to chain onto
            res.classes.append('chained_sup_rejected')
        except Exception as e:  # noqa
            if exc_sig(e).endswith('@harness'):
                raise
            res.add(viol('sup_build_unexpected_exception', f'chained: {type(e).__name__}: {e}',
                         sig=f'sup_build_unexpected_exception:chained:{exc_sig(e)}', data=d0))
    n_eval = 0
    if neg == 'nonfinal':
        if not b.dsg.final:
            try:
                sup.resolve(b.dsg)
                res.add(viol('non_final_source_accepted', 'resolve() on the unresolved source returned a graph', data=d0))
            except RuntimeError:
                pass
            n_eval += 1
    for leaf in leaves:
        inst = leaf['inst']
        names = set(leaf['ident'][0])
        sel_edges = [e for e, _ in leaf['ident'][1]]
        exp, ambiguous = expected(case, src_spec, names, sel_edges)
        n_eval += 1
        try:
            out = sup.resolve(inst)
        except SupResolveError as e:
            missing_none_hit = neg == 'missing_none'
            if not ambiguous and not missing_none_hit:
                res.add(viol('resolve_error_without_ambiguity', f'source nodes={sorted(names)}: {e}',
                             data=dict(d0, msg=str(e)[:300])))
            continue
        except RuntimeError as e:
            if neg == 'missing_none':
                continue
            res.add(viol('resolve_failed', f'source nodes={sorted(names)}: {type(e).__name__}: {e}',
                         sig=f'resolve_failed:{exc_sig(e)}', data=dict(d0, msg=str(e)[:300])))
            continue
        except Exception as e:  # noqa
            if exc_sig(e).endswith('@harness'):
                raise
            res.add(viol('resolve_failed', f'source nodes={sorted(names)}: {type(e).__name__}: {e}',
                         sig=f'resolve_failed:{exc_sig(e)}', data=dict(d0, msg=str(e)[:300])))
            continue
        got = {n.name for n in out.graph.nodes if hasattr(n, 'name') and not hasattr(n, 'decision_sort_key')}
        if not out.final:
            res.add(viol('resolved_not_final', f'source nodes={sorted(names)}', data=d0))
            continue
        if neg == 'missing_none':
            # a graph may only be returned if no mapped source choice without None is inactive here
            bad = False
            for ch in case['sup']:
                if ch['map']['kind'] == 'option' and f'{ch["origin"]}' in got:
                    org = [c for c in src_spec['choices'] if c['id'] == ch['map']['src_choice']][0]['origin']
                    if org not in names:
                        bad = True
            if bad:
                res.add(viol('missing_none_resolved_anyway', f'source nodes={sorted(names)} resolved to {sorted(got)}',
                             data=d0))
            continue
        if ambiguous:
            continue   # any consistent outcome accepted
        if got != exp:
            res.add(viol('resolved_to_wrong_option', f'source nodes={sorted(names)} sel={sel_edges}: resolved '
                                                     f'{sorted(got)} expected {sorted(exp)}', data=d0))
        elif sup2 is not None:
            exp2 = expected_chain(case, exp)
            n_eval += 1
            try:
                out2 = sup2.resolve(out)
                got2 = {n.name for n in out2.graph.nodes if hasattr(n, 'name') and not hasattr(n, 'decision_sort_key')}
                if exp2 is not None and (got2 != exp2 or not out2.final):
                    res.add(viol('chained_resolved_to_wrong_option', f'source nodes={sorted(names)}: first level '
                                                                     f'{sorted(got)}, second level {sorted(got2)} expected '
                                                                     f'{sorted(exp2)} final={out2.final}', data=d0))
            except Exception as e:  # noqa
                if exc_sig(e).endswith('@harness'):
                    raise
                if exp2 is not None:
                    res.add(viol('chained_resolve_failed', f'source nodes={sorted(names)} first level {sorted(got)}: '
                                                           f'{type(e).__name__}: {e}',
                                 sig=f'chained_resolve_failed:{exc_sig(e)}', data=dict(d0, msg=str(e)[:300])))
        if len(res.violations) > 5:
            break
    res.evaluations = max(1, n_eval)
    res.nontrivial = (nested or inactive_somewhere) and len(leaves) >= 1
    res.classes.append('nested_sup_choice' if nested else 'flat_sup')
    if shared:
        res.classes.append('nested_below_shared_node')
    if (case.get('map_order') or []) != sorted(case.get('map_order') or []):
        res.classes.append('mappings_registered_out_of_order')
    res.classes.append('source_choice_inactive_somewhere' if inactive_somewhere else 'source_choices_always_active')
    res.sample = {'source_choices': src_spec['choices'], 'sup': case['sup'], 'neg': neg,
                  'n_source_architectures': len(leaves)}
    return res
