"""C16 - design-variable nodes receive in-range values exactly when they exist (DESIGN.md 6/C16)"""
import math
from hypothesis import strategies as st
from ..strat import ints
from .. import specs, build
from ..core import Result, viol, exc_sig
from ..observe import observe, decode_one

ID = 'C16'
RULE = ('cases = generated G-SEL spec with 1-3 design-variable nodes (continuous / discrete, under permanent and '
        'conditional nodes, optionally LINKED) x encoder x create flag x vectors whose DV entries are drawn inside, on '
        'and far outside the domain (negative and too large indices, non-integers, bounds +/- 10, +/- inf); oracle = clamp '
        'model: an existing node stores clamp(value) and the corrected vector reports it, an absent node is inactive at '
        'the canonical value, set_des_var_value on a graph clamps the same way; every architecture handed out keeps the '
        'values it received while later vectors are decoded and while a copy of it is given other values; in 1 of 4 cases '
        'a baseline value is set on the design-space graph before the processor is created (must not leak, must not '
        'change); non-trivial = a clamped value on a '
        'conditionally existing node; distinct by sha1(spec, encoder, vectors)')
BUDGET = {'quick': 800, 'thorough': 20000}

DISC_VALUES = [-5, -1, 0, 1, 2, 3, 4, 7, 0.5, 1.9, 2.49]
CONT_OFFSETS = ['lo', 'hi', 'mid', 'lo-10', 'hi+10', 'lo+0.25', '-inf', '+inf']


@st.composite
def _case(draw, tier):
    spec = draw(specs.sel_spec(min_nodes=3, max_nodes=8, max_incompat=1, p_extra=draw(st.booleans())))
    if draw(ints(0, 3)) == 0:
        spec = draw(specs.add_linked_dvs(spec))
    spec = draw(specs.add_dvs(spec, max_dv=3))
    if not any(nd['k'] == 'dv' for nd in spec['nodes'].values()):
        spec['nodes']['dvx'] = {'k': 'dv', 'opts': 3}
        spec['edges'].append([draw(st.sampled_from(specs.gen_nodes(spec))), 'dvx'])
    picks = draw(st.lists(st.tuples(ints(0, 10**6), st.sampled_from(DISC_VALUES), st.sampled_from(CONT_OFFSETS)),
                          min_size=4, max_size=10))
    # baseline: a value is set on the design-space graph itself before the processor is created (1 in 4)
    return {'spec': spec, 'enc': draw(st.sampled_from(['COMPLETE', 'FAST'])), 'picks': [list(p) for p in picks],
            'baseline': draw(st.sampled_from([None, None, None, 0, 1]))}


def strategy(tier):
    return _case(tier)


def _cont(bounds, code):
    lo, hi = bounds
    return {'lo': lo, 'hi': hi, 'mid': (lo+hi)/2, 'lo-10': lo-10, 'hi+10': hi+10, 'lo+0.25': lo+0.25*(hi-lo),
            '-inf': -math.inf, '+inf': math.inf}[code]


def clamp_disc(v, n):
    v = int(v)
    return max(0, min(n-1, v))


def check_case(case):
    res = Result()
    spec, enc = case['spec'], case['enc']
    res.classes = specs.labels(spec)+['enc_'+enc]
    from .. import refsel
    try:
        ref_empty = len(refsel.Model(spec).feasible_archs(arch_max=2000)) == 0
    except refsel.TooLarge:
        ref_empty = False
    baseline = {}

    def set_baseline(b_):
        # values on the design-space graph itself must neither leak into decoded architectures nor be changed by decodes
        if case.get('baseline') is None:
            return
        for name, nd in sorted(spec['nodes'].items()):
            if nd['k'] == 'dv' and b_.node[name] in b_.dsg.graph.nodes:
                v = (case['baseline'] % nd['opts']) if 'opts' in nd else nd['bounds'][case['baseline'] % 2]
                b_.dsg.set_des_var_value(b_.node[name], v)
                baseline[name] = b_.dsg.des_var_value(b_.node[name])
    obs = observe(case, vectors=[], before_processor=set_baseline)
    if baseline:
        res.classes.append('baseline_on_design_space_graph')
    if obs.build_exc is not None:
        res.classes.append('construct_failed_not_judged_here')
        return res
    if ref_empty:
        res.classes.append('ref_empty_not_judged_here')   # C01: only an explicit error is required
        return res
    meta, gp, b = obs.des_vars, obs.gp, obs.b
    linked = {}
    for i, con in enumerate(spec.get('cons', [])):
        for m in con['on']:
            if m in spec['nodes'] and spec['nodes'][m]['k'] == 'dv':
                linked[m] = sorted(mm for mm in con['on'])
    clamped_on_conditional = False
    n_eval = 0
    kept = []   # (x, instance, {node name: value stored at decode time})
    for seed, dval, ccode in case['picks']:
        x = []
        st_ = seed
        for m in meta:
            st_ = (st_*6364136223846793005+1442695040888963407) % (1 << 64)
            if m['kind'] == 'dv':
                x.append(dval if m['discrete'] else _cont(m['bounds'], ccode))
            elif m['discrete']:
                x.append((st_ >> 33) % m['n_opts'])
            else:
                x.append(m['bounds'][0])
        for create in (True, False):
            try:
                inst, xc, act = gp.get_graph(list(x), create=create)
            except Exception as e:  # noqa
                if exc_sig(e).endswith('@harness'):
                    raise
                if any(isinstance(v, float) and math.isinf(v) for v in x) and isinstance(e, (OverflowError, ValueError)):
                    res.classes.append('inf_rejected')
                    continue
                res.add(viol('decode_failed', f'x={x} create={create} {type(e).__name__}: {e}',
                             sig=f'decode_failed:{exc_sig(e)}', data={'enc': enc, 'msg': str(e)[:300]}))
                continue
            n_eval += 1
            names = {b.nm(n) for n in inst.graph.nodes} if inst is not None else None
            for i, m in enumerate(meta):
                if m['kind'] != 'dv':
                    continue
                d0 = {'enc': enc, 'create': create, 'node': m['node'], 'linked': m['node'] in linked,
                      'members': linked.get(m['node']), 'all_members': linked.get(m['node']),
                      'present': sorted(n for n in (linked.get(m['node']) or []) if names is not None and n in names)}
                if m['discrete']:
                    exp = clamp_disc(x[i], m['n_opts'])
                else:
                    exp = min(max(x[i], m['bounds'][0]), m['bounds'][1])
                if act[i]:
                    if abs(xc[i]-exp) > 1e-12*max(1.0, abs(exp)):
                        res.add(viol('reported_value_not_clamped_input', f'x={x} create={create}: {m["name"]} reported '
                                                                         f'{xc[i]} expected {exp}', data=d0))
                    if m['cond'] and exp != x[i]:
                        clamped_on_conditional = True
                    if names is not None:
                        if m['node'] not in names:
                            res.add(viol('active_but_node_absent', f'x={x}: {m["name"]}', data=d0))
                        else:
                            val = inst.des_var_value(b.node[m['node']])
                            if val is None or abs(val-exp) > 1e-12*max(1.0, abs(exp)):
                                res.add(viol('stored_value_wrong', f'x={x} create={create}: node {m["node"]} stores {val} '
                                                                   f'expected {exp}', data=d0))
                else:
                    canon = 0 if m['discrete'] else (m['bounds'][0]+m['bounds'][1])/2
                    if abs(xc[i]-canon) > 1e-12*max(1.0, abs(canon)):
                        res.add(viol('inactive_not_canonical', f'x={x}: {m["name"]}={xc[i]}', data=d0))
                    if names is not None and m['node'] in names:
                        res.add(viol('node_exists_but_variable_inactive', f'x={x} create={create}: {m["name"]} '
                                                                          f'(node {m["node"]} in instance)', data=d0))
            # every existing dv node has an in-domain value
            if inst is not None:
                kept.append((list(x), inst, {name: inst.des_var_value(b.node[name]) for name, nd in spec['nodes'].items()
                                             if nd['k'] == 'dv' and name in names}))
                for name, nd in spec['nodes'].items():
                    if nd['k'] == 'dv' and name in names:
                        val = inst.des_var_value(b.node[name])
                        ok = val is not None and ((0 <= val < nd['opts'] and int(val) == val) if 'opts' in nd
                                                  else nd['bounds'][0] <= val <= nd['bounds'][1])
                        if not ok:
                            res.add(viol('existing_node_without_valid_value', f'x={x}: node {name} value {val}',
                                         data={'enc': enc, 'node': name, 'linked': name in linked,
                                               'members': linked.get(name),
                                               'present': sorted(n for n in (linked.get(name) or []) if n in names),
                                               'all_members': linked.get(name)}))
            if len(res.violations) > 40:
                break
    # the architectures handed out earlier still hold the values they received; the design-space graph its baseline
    for x, inst, stored in kept:
        now = {name: inst.des_var_value(b.node[name]) for name in stored}
        if now != stored:
            name = [n for n in stored if now[n] != stored[n]][0]
            res.add(viol('stored_value_changed_later', f'architecture decoded from x={x}: node {name} held '
                                                       f'{stored[name]} at decode time and {now[name]} after the later '
                                                       f'decodes', data={'enc': enc, 'node': name}))
            break
    if baseline:
        now = {name: b.dsg.des_var_value(b.node[name]) for name in baseline}
        if now != baseline:
            res.add(viol('design_space_graph_value_changed', f'baseline {baseline} -> {now} after decoding',
                         data={'enc': enc}))
    # a copy of a decoded architecture is independent of it
    if kept:
        x, inst, stored = kept[0]
        cp = inst.copy()
        for name in stored:
            nd = spec['nodes'][name]
            cp.set_des_var_value(b.node[name], (nd['opts']-1) if 'opts' in nd else nd['bounds'][1])
            cp.set_des_var_value(b.node[name], 0 if 'opts' in nd else nd['bounds'][0])
        now = {name: inst.des_var_value(b.node[name]) for name in stored}
        if now != stored:
            res.add(viol('value_set_on_copy_changed_original', f'architecture decoded from x={x}: {stored} -> {now}',
                         data={'enc': enc}))
    # direct setting on a graph
    g = b.dsg.copy()
    for name, nd in spec['nodes'].items():
        if nd['k'] != 'dv' or name in linked or b.node[name] not in g.graph.nodes:
            continue
        tries = DISC_VALUES if 'opts' in nd else [_cont(nd['bounds'], c) for c in CONT_OFFSETS if 'inf' not in c]
        for v in tries:
            if 'opts' in nd and int(v) != v:
                continue
            try:
                g.set_des_var_value(b.node[name], v)
                got = g.des_var_value(b.node[name])
            except Exception as e:  # noqa
                if exc_sig(e).endswith('@harness'):
                    raise
                res.add(viol('set_value_exception', f'{name}={v} {type(e).__name__}: {e}',
                             sig=f'set_value_exception:{exc_sig(e)}'))
                continue
            exp = clamp_disc(v, nd['opts']) if 'opts' in nd else min(max(v, nd['bounds'][0]), nd['bounds'][1])
            if got != exp:
                res.add(viol('set_value_not_clamped', f'{name}: set {v} stored {got} expected {exp}'))
    res.evaluations = max(1, n_eval)
    res.nontrivial = clamped_on_conditional
    res.sample = {'spec': spec, 'enc': enc, 'picks': case['picks'][:3],
                  'dv_vars': [(m['name'], m['n_opts'] or m['bounds'], m['cond']) for m in meta if m['kind'] == 'dv']}
    return res
