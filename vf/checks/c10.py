"""C10 - every connection encoder is a faithful, total and onto coding of connection sets (DESIGN.md 6/C10)"""
import itertools
import os
import time
import json
import numpy as np
from hypothesis import strategies as st
from ..strat import ints
from .. import matspec, refconn, build
from ..core import Result, viol, exc_sig, jhash
from ..observe import lcg_vectors

ID = 'C10'
RULE = ('cases = generated G-MAT settings (<= 3x3 nodes, exclusions, explicit parallel limit, 1-4 existence patterns incl. '
        'absent nodes and override lists) x every factory combination of the registry (eager x eager imputers, lazy x '
        'lazy imputers, enumerating x lazy imputers, pattern encoders) x every pattern with >= 1 reference matrix x the '
        'full declared vector space (<= 400 vectors, else 40 pseudo-random + corners; combinations declaring > 3000 vectors are excluded and counted) extended by out-of-range and '
        'too-long vectors; oracle = R-CONN validity, range, fixed point, onto, equal vectors => equal matrices, listed '
        'design vectors == corrected vectors, >= 2 used values per variable; one evaluation = one (settings, encoder, '
        'imputer); non-trivial = >= 2 patterns with different matrix counts (or >= 3 matrices) and >= 1 vector imputed; '
        'distinct by sha1(settings, combination); second campaign: pattern encoders only on near-miss settings (one excluded '
        'pair toggled / one degree list changed / one repeat flag flipped away from an exact pattern shape)')
BUDGET = {'quick': 12, 'thorough': 250}
MAX_ENUM = 400
SPACE_MAX = 3000
MARKER_IMPUTERS = ('ConstraintViolationImputer', 'LazyConstraintViolationImputer')


def strategy(tier):
    return st.fixed_dictionaries({'ms': st.one_of(matspec.mat_spec(max_side=3, max_patterns=4),
                                                  matspec.pattern_family_spec(), matspec.pattern_family_spec()), 'vseed': ints(0, 2**31)})


# thorough tier, second engine: atheris over the pure-python encoder / imputer / pattern modules (matrix.py and encoding.py
# hold numba functions and cannot be instrumented); one (settings, factory combination) per execution
FUZZ_MODULES = ['adsg_core.optimization.assign_enc.lazy_encoding', 'adsg_core.optimization.assign_enc.lazy',
                'adsg_core.optimization.assign_enc.patterns.patterns', 'adsg_core.optimization.assign_enc.patterns.encoder',
                'adsg_core.optimization.assign_enc.eager', 'adsg_core.optimization.assign_enc.enumerating',
                'adsg_core.optimization.assign_enc.assignment_manager']
FUZZ_RUNS = 1500


def fuzz_strategy(tier):
    keys = [[c[0], c[1], c[2]] for c in registry()]
    return st.fixed_dictionaries({'ms': st.one_of(matspec.mat_spec(max_side=3, max_patterns=3),
                                                  matspec.pattern_family_spec()),
                                  'vseed': ints(0, 2**31), 'combo': st.sampled_from(keys)})


def extra_campaigns(tier):
    # pattern encoders only (cheap: ~10 combinations per case) on settings one small step away from the exact pattern
    # shapes: the boundary of every `_matches_pattern`
    n = 120 if tier == 'quick' else 2500
    strat = st.fixed_dictionaries({'ms': matspec.pattern_family_spec(always_near=True), 'vseed': ints(0, 2**31),
                                   'groups': st.just(['pattern'])})
    return [('pattern_near_miss', strat, n)]


def registry():
    from adsg_core.optimization.assign_enc import encoder_registry as er
    combos = []
    for i, enc in enumerate(er.EAGER_ENCODERS):
        for j, imp in enumerate(er.EAGER_IMPUTERS):
            combos.append(('eager', i, j, enc, imp))
    for i, enc in enumerate(er.LAZY_ENCODERS):
        for j, imp in enumerate(er.LAZY_IMPUTERS):
            combos.append(('lazy', i, j, enc, imp))
    for i, enc in enumerate(er.EAGER_ENUM_ENCODERS):
        for j, imp in enumerate(er.LAZY_IMPUTERS):
            combos.append(('enum', i, j, enc, imp))
    for i, enc in enumerate(er.PATTERN_ENCODERS):
        combos.append(('pattern', i, 0, enc, er.DEFAULT_LAZY_IMPUTER))
    return combos


def make_manager(settings, enc_factory, imp_factory):
    from adsg_core.optimization.assign_enc.lazy_encoding import LazyEncoder
    from adsg_core.optimization.assign_enc.assignment_manager import AssignmentManager, LazyAssignmentManager
    encoder = enc_factory(imp_factory())
    if isinstance(encoder, LazyEncoder):
        return LazyAssignmentManager(settings, encoder), encoder
    return AssignmentManager(settings, encoder, cache=False), encoder


def _mt(m):
    return tuple(tuple(int(v) for v in row) for row in np.asarray(m))


def check_combo(ms, rs, pats, exist_objs, refs, combo, vseed, res, only=None, manager=None, n_sample=40):
    """Checks one (encoder, imputer) combination; returns True if some vector was imputed.
    If `manager` is given (C12), that assignment manager is judged instead of constructing one."""
    from adsg_core.optimization.assign_enc.patterns.encoder import InvalidPatternEncoder
    group, i_enc, i_imp, enc_f, imp_f = combo
    tag = f'{group}[{i_enc}]x[{i_imp}]'
    any_matrix = any(len(r) > 0 for r in refs)
    try:
        if manager is not None:
            mgr, encoder = manager, manager.encoder
            # existence objects of the manager's own settings (equal by value to ours)
        else:
            settings, _, _ = matspec.to_settings(ms)
            mgr, encoder = make_manager(settings, enc_f, imp_f)
        dvs = list(mgr.design_vars)
    except InvalidPatternEncoder:
        res.classes.append('pattern_encoder_not_applicable')
        return None
    except Exception as e:  # noqa
        if exc_sig(e).endswith('@harness'):
            raise
        if any_matrix:
            res.add(viol('encode_exception', f'{tag} {type(e).__name__}: {e}', sig=f'encode_exception:{exc_sig(e)}',
                         data={'msg': str(e)[:300], 'combo': [group, i_enc, i_imp]}))
        return None
    if not any_matrix:
        res.classes.append('no_matrix_anywhere_skipped')
        return None
    name = f'{encoder!s}'
    imp_name = type(getattr(encoder, '_imputer', None)).__name__
    n_dv = len(dvs)
    data0 = {'combo': [group, i_enc, i_imp], 'group': group, 'encoder': name, 'imputer': imp_name, 'n_dv': n_dv,
             'n_patterns': len(pats)}
    n_opts = [int(dv.n_opts) for dv in dvs]
    if any(n < 2 for n in n_opts):
        res.add(viol('variable_with_less_than_2_options', f'{tag} {name} n_opts={n_opts}', data=data0))
    meta = [{'discrete': True, 'n_opts': n} for n in n_opts]
    n_space = int(np.prod(n_opts)) if n_opts else 1
    exhaustive = n_space <= MAX_ENUM
    if n_space > SPACE_MAX:
        # out of bounds: the imputers' documented 10 000-try cap (all -1 marker) and the cost are beyond the size bound
        res.classes.append('combo_excluded_declared_space_too_large')
        res.n_excluded_combos = getattr(res, 'n_excluded_combos', 0)+1
        return None
    if exhaustive:
        vectors = [list(x) for x in itertools.product(*[range(n) for n in n_opts])]
    else:
        vectors = [[0]*n_dv, [n-1 for n in n_opts]]+lcg_vectors(meta, vseed, n_sample)
    # out-of-range and too-long variants
    extra = []
    if n_dv:
        base = vectors[len(vectors)//2]
        for i in range(min(n_dv, 4)):
            for val in (-1, n_opts[i], n_opts[i]+3):
                x = list(base)
                x[i] = val
                extra.append(x)
        extra.append(list(base)+[0])
        extra.append(list(base)+[1, 2])
    else:
        extra.append([0])

    try:
        all_dv = mgr.get_all_design_vectors()
    except Exception as e:  # noqa
        if exc_sig(e).endswith('@harness'):
            raise
        res.add(viol('all_design_vectors_exception', f'{tag} {name} {type(e).__name__}: {e}',
                     sig=f'all_design_vectors_exception:{exc_sig(e)}', data=dict(data0, msg=str(e)[:300])))
        all_dv = None

    imputed = False
    n_viol0 = len(res.violations)
    used_values = [set() for _ in range(n_dv)]
    is_marker_imp = imp_name in MARKER_IMPUTERS
    for i_pat, (pat, ex, ref) in enumerate(zip(pats, exist_objs, refs)):
        if not ref or (only is not None and i_pat != only):
            continue
        ref_set = set(ref)
        image = {}
        pre = refconn.limit_matrix(rs, pat)
        d = dict(data0, pattern=pat)
        for kind_v, x in [('in', v) for v in vectors]+[('out', v) for v in extra]:
            try:
                xc, act, m = mgr.get_matrix(np.array(x, dtype=int), existence=ex)
                xc = [int(v) for v in xc]
                act = [bool(a) for a in act]
                mt = _mt(m)
            except Exception as e:  # noqa
                if exc_sig(e).endswith('@harness'):
                    raise
                res.add(viol('decode_exception', f'{tag} {name} pattern={pat} x={x} {type(e).__name__}: {e}',
                             sig=f'decode_exception:{exc_sig(e)}', data=dict(d, msg=str(e)[:300], x=x, vec=kind_v)))
                break
            is_marker = len(mt) > 0 and all(v == -1 for row in mt for v in row) and any(True for row in mt for _ in row)
            if is_marker and is_marker_imp:
                imputed = True
                continue  # documented: does not impute, returns a matrix of -1
            if mt not in ref_set:
                res.add(viol('invalid_matrix', f'{tag} {name} pattern={pat} x={x} -> {mt} (vector kind {kind_v})',
                             data=dict(d, x=x, vec=kind_v, matrix=mt)))
                break
            head = xc[:n_dv]
            if len(xc) < n_dv or any(not (0 <= v < n_opts[i]) for i, v in enumerate(head)) or \
                    (kind_v == 'in' and len(xc) != n_dv) or any(v != 0 for v in xc[n_dv:]):
                res.add(viol('corrected_vector_out_of_range', f'{tag} {name} pattern={pat} x={x} -> {xc} n_opts={n_opts}',
                             data=dict(d, x=x, vec=kind_v)))
                break
            if head != list(x)[:n_dv]:
                imputed = True
            # fixed point
            try:
                xc2, act2, m2 = mgr.get_matrix(np.array(head, dtype=int), existence=ex)
                if [int(v) for v in xc2] != head or [bool(a) for a in act2] != act[:n_dv] or _mt(m2) != mt:
                    res.add(viol('not_a_fixed_point', f'{tag} {name} pattern={pat} x={x} -> {head},{act[:n_dv]},{mt}; '
                                                      f'again -> {list(xc2)},{list(act2)},{_mt(m2)}',
                                 data=dict(d, x=x, vec=kind_v, same_vec=[int(v) for v in xc2] == head,
                                           same_mat=_mt(m2) == mt,
                                           more_active=all(b or not a for a, b in zip(act[:n_dv], act2)))))
                    break
            except Exception as e:  # noqa
                if exc_sig(e).endswith('@harness'):
                    raise
                res.add(viol('decode_exception', f'{tag} {name} pattern={pat} x={head} (re-decode) {type(e).__name__}: {e}',
                             sig=f'decode_exception:{exc_sig(e)}', data=dict(d, msg=str(e)[:300], x=head, vec='redecode')))
                break
            key = tuple(head)
            if key in image and image[key][0] != mt:
                res.add(viol('same_vector_different_matrix', f'{tag} {name} pattern={pat} xc={head}: {image[key][0]} vs {mt}',
                             data=dict(d, x=x)))
                break
            image[key] = (mt, act[:n_dv])
            for i, (v, a) in enumerate(zip(head, act)):
                if a:
                    used_values[i].add(v)
        else:
            if exhaustive and not is_marker_imp:
                got = {m for m, _ in image.values()}
                if got != ref_set:
                    miss = sorted(ref_set-got)[:2]
                    res.add(viol('not_onto', f'{tag} {name} pattern={pat} unreachable matrices={miss} '
                                             f'({len(got)}/{len(ref_set)} reached)', data=dict(d, missing=miss)))
            if all_dv is not None and exhaustive and not is_marker_imp:
                try:
                    listed = all_dv.get(ex)
                    if listed is None:
                        listed_set = None
                    else:
                        arr = np.array(listed).astype(int)
                        arr = arr.reshape(arr.shape[0], -1) if arr.ndim == 2 else arr.reshape(0, n_dv)
                        arr = np.where(arr == -1, 0, arr)
                        listed_set = {tuple(int(v) for v in row) for row in arr}
                    if listed_set is None or listed_set != set(image.keys()):
                        a = sorted(set(image.keys())-(listed_set or set()))[:2]
                        b_ = sorted((listed_set or set())-set(image.keys()))[:2]
                        res.add(viol('listed_design_vectors_differ', f'{tag} {name} pattern={pat} corrected-not-listed={a} '
                                                                     f'listed-not-corrected={b_}', data=d))
                except Exception as e:  # noqa
                    if exc_sig(e).endswith('@harness'):
                        raise
                    res.add(viol('all_design_vectors_exception', f'{tag} {name} {type(e).__name__}: {e}',
                                 sig=f'all_design_vectors_exception:{exc_sig(e)}', data=dict(d, msg=str(e)[:300])))
        if len(res.violations)-n_viol0 > 2:
            break
    if exhaustive and len(res.violations) == n_viol0 and not is_marker_imp and only is None:
        for i, vals in enumerate(used_values):
            if len(vals) < 2:
                res.add(viol('variable_with_one_used_value', f'{tag} {name} variable {i} uses {sorted(vals)} of '
                                                             f'{n_opts[i]}', data=dict(data0, var=i)))
                break
    return imputed


def check_case(case):
    res = Result()
    ms = case['ms']
    build.ensure_path()
    build.reset_globals()
    rs = matspec.ref_settings(ms)
    settings, exist_objs, pats = matspec.to_settings(ms)
    refs = []
    try:
        for pat in pats:
            r = refconn.valid_matrices(rs, pat)
            if len(r) > 400:
                res.excluded = True
                return res
            refs.append(r)
    except refconn.TooLarge:
        res.excluded = True
        return res
    combos = registry()
    if 'combo' in case:
        combos = [c for c in combos if [c[0], c[1], c[2]] == list(case['combo'])]
    if 'groups' in case:
        combos = [c for c in combos if c[0] in case['groups']]
    sizes = [len(r) for r in refs]
    res.classes = [f'{len(ms["src"])}x{len(ms["tgt"])}', f'patterns{len(pats)}', 'family_'+ms.get('family', 'random')]
    n_eval = 0
    n_nontrivial = 0
    keys = []
    rich = len(set(s for s in sizes if s > 0)) >= 2 or max(sizes+[0]) >= 3
    for combo in combos:
        t_combo = time.time()
        imputed = check_combo(ms, rs, pats, exist_objs, refs, combo, case.get('vseed', 0), res)
        if os.environ.get('VF_TIMING') and time.time()-t_combo > 5:
            print('SLOW', round(time.time()-t_combo, 1), combo[:3], json.dumps(ms), flush=True)
        n_eval += 1
        if imputed and rich:
            n_nontrivial += 1
            keys.append(jhash([ms, combo[0], combo[1], combo[2]]))
    res.evaluations = n_eval
    res.nontrivial = n_nontrivial > 0
    res.classes = sorted(set(res.classes))
    res.classes.append('any_matrix' if any(sizes) else 'no_matrix_anywhere')
    res.sample = {'settings': ms, 'reference_sizes': sizes, 'combinations': n_eval,
                  'combinations_nontrivial': n_nontrivial}
    res.keys = keys
    return res
