"""C19 - the time limiter returns, raises or times out, and leaves nothing running (DESIGN.md 6/C19)"""
import time
import threading
from hypothesis import strategies as st
from ..strat import ints
from .. import build
from ..core import Result, viol

ID = 'C19'
RULE = ('cases = generated schedules: a worker function of a generated kind {returns a value, raises one of 13 exception types '
        'with arguments, swallows the first injected interrupt and continues for tau, blocks in native sleep, retries in a '
        'broad except-Exception loop, nested run_timeout with inner limit above/below the inner duration, nested run_timeout whose inner limit lies 0.5 s '
        'behind the outer one while the inner function runs 0.5 s past that (outer expires first)} whose completion '
        'is set to limit + delta, delta on a dense grid around 0 (+/- 1..60 ms) and far values, each repeated, limits 40-120 '
        'ms plus 400-500 ms limits with completion >= 300 ms early (every exception type: decidedly in time); followed by a '
        'back-to-back fast call; all 16 shards run concurrently on purpose (load); oracle = outcome trichotomy (value only '
        'if the function returned it, own exception with type and args only if it raised it, otherwise TimeoutError; a '
        'function that finished >= 150 ms before the limit must not time out), the calling thread sees no stray '
        'interrupt during the call nor in a 50 ms bytecode loop afterwards, after return the function\'s heartbeat no longer '
        'advances (nested inner workers included), the following fast call returns its value; one evaluation = one call; '
        'non-trivial = |delta| <= 15 ms (completion races the expiry) or the function swallows / blocks / nests; distinct '
        'by sha1(kind, limit, delta, variant, repetition)')
BUDGET = {'quick': 25, 'thorough': 1200}
EXC_TYPES = ['ValueError', 'RuntimeError', 'KeyError', 'IndexError', 'ZeroDivisionError', 'MemoryError', 'OSError',
             'AssertionError', 'StopIteration', 'RecursionError', 'NotImplementedError', 'ArithmeticError', 'LookupError']
KINDS = ['return', 'raise', 'swallow', 'native', 'retry_loop', 'nested_inner_times_out', 'nested_inner_returns',
         'nested_outer_first']
DELTAS = [-200, -60, -30, -15, -8, -4, -2, -1, 0, 1, 2, 4, 8, 15, 30, 60, 200, 500]


def fixed_cases(tier):
    reps = 1 if tier == 'quick' else 4
    for kind in KINDS:
        for d in DELTAS:
            for r in range(reps):
                yield {'kind': kind, 'limit_ms': 80, 'delta_ms': d, 'exc': EXC_TYPES[(d+r) % len(EXC_TYPES)],
                       'tau_ms': 300 if d in (60, 200, 500) else 30, 'rep': r}
    # nested limiter whose own expiry (0.45 s) falls just behind the outer one (0.4 s): the outer interrupt tends to reach
    # the worker while the inner limiter is closing its pool
    for r in range(3 if tier == 'quick' else 12):
        yield {'kind': 'nested_inner_times_out', 'limit_ms': 400, 'delta_ms': 500, 'exc': 'ValueError', 'tau_ms': 5,
               'rep': r}
    # nested limiter whose own limit lies 0.5 s behind the outer one while the inner function runs 0.5 s past even that:
    # the outer interrupt is pending long before the inner wait ends, so the inner limiter is interrupted *while waiting*
    # (not while closing its pool: KF24's race cannot occur here) and must stop its own worker before passing it on
    for r in range(3 if tier == 'quick' else 12):
        yield {'kind': 'nested_outer_first', 'limit_ms': (80, 120, 40)[r % 3], 'delta_ms': 0, 'exc': 'ValueError',
               'tau_ms': 5, 'rep': r}
    # decidedly in time (>= 300 ms before a 400-500 ms limit): the own result / every own exception type must come back
    for limit, d in ((400, -380), (500, -320)):
        yield {'kind': 'return', 'limit_ms': limit, 'delta_ms': d, 'exc': 'ValueError', 'tau_ms': 30, 'rep': 0}
        for exc in EXC_TYPES:
            yield {'kind': 'raise', 'limit_ms': limit, 'delta_ms': d, 'exc': exc, 'tau_ms': 30, 'rep': 0}


def strategy(tier):
    return st.fixed_dictionaries({
        'kind': st.sampled_from(KINDS), 'limit_ms': st.sampled_from([40, 80, 120, 400]),
        'delta_ms': st.one_of(st.sampled_from(DELTAS), ints(-20, 20), st.sampled_from([-350, -300])),
        'exc': st.sampled_from(EXC_TYPES), 'tau_ms': st.sampled_from([5, 30, 80, 300]), 'rep': ints(0, 3)})


class _State:
    def __init__(self):
        self.beats = 0
        self.finished = None     # 'returned' | 'raised'
        self.elapsed = None
        self.thread = None
        self.inner_beats = 0
        self.swallowed = 0
        self.exited = False


def _busy_until(state, t_end, attr='beats'):
    while time.monotonic() < t_end:
        setattr(state, attr, getattr(state, attr)+1)


def make_function(case, state, run_timeout, t0):
    kind = case['kind']
    limit = case['limit_ms']/1000.
    dur = max(0.001, limit+case['delta_ms']/1000.)
    exc_cls = __builtins__[case['exc']] if isinstance(__builtins__, dict) else getattr(__builtins__, case['exc'])
    value = ('result', case['limit_ms'], case['delta_ms'])

    def done(how):
        state.elapsed = time.monotonic()-t0
        state.finished = how

    def f_return():
        state.thread = threading.current_thread()
        _busy_until(state, t0+dur)
        done('returned')
        return value

    def f_raise():
        state.thread = threading.current_thread()
        _busy_until(state, t0+dur)
        done('raised')
        raise exc_cls('own', case['delta_ms'])

    def f_swallow():
        state.thread = threading.current_thread()
        try:
            _busy_until(state, t0+dur)
        except BaseException:  # noqa  (on CPython 3.12 the injected object surfaces as SystemError)
            state.swallowed += 1
            _busy_until(state, time.monotonic()+case['tau_ms']/1000.)
        done('returned')
        return value

    def f_native():
        state.thread = threading.current_thread()
        time.sleep(dur)
        state.beats += 1
        done('returned')
        return value

    def f_retry():
        state.thread = threading.current_thread()
        t_end = t0+dur
        while time.monotonic() < t_end:
            try:
                state.beats += 1
                if state.beats % 7 == 0:
                    raise KeyError('transient')
            except Exception:  # noqa
                continue
        done('returned')
        return value

    def f_nested(inner_times_out):
        state.thread = threading.current_thread()

        def inner():
            _busy_until(state, t0+dur, attr='inner_beats')
            return 'inner'
        inner_limit = (dur/2) if inner_times_out else (dur+1.0)
        try:
            r = run_timeout(inner_limit, inner)
        except TimeoutError:
            r = 'inner_timeout'
            _busy_until(state, t0+dur)
        done('returned')
        return (value, r)

    def f_nested_outer_first():
        state.thread = threading.current_thread()

        def inner():
            _busy_until(state, t0+limit+1.0, attr='inner_beats')
            return 'inner'
        try:
            r = run_timeout(limit+0.5, inner)
        except TimeoutError:
            r = 'inner_timeout'
        done('returned')
        return (value, r)

    return {'nested_outer_first': f_nested_outer_first, 'return': f_return, 'raise': f_raise, 'swallow': f_swallow, 'native': f_native, 'retry_loop': f_retry,
            'nested_inner_times_out': lambda: f_nested(True), 'nested_inner_returns': lambda: f_nested(False)}[kind], \
        value, exc_cls


def check_case(case):
    build.ensure_path()
    from adsg_core.optimization.assign_enc.time_limiter import run_timeout
    res = Result()
    kind = case['kind']
    limit = case['limit_ms']/1000.
    state = _State()
    t0 = time.monotonic()
    func0, value, exc_cls = make_function(case, state, run_timeout, t0)

    def func():
        # 'exited' = the function is over, whichever way (returned, raised, or aborted by the injected interrupt)
        try:
            return func0()
        finally:
            state.exited = True
    outcome = None
    payload = None
    d0 = {'kind': kind, 'delta_ms': case['delta_ms'], 'limit_ms': case['limit_ms']}
    try:
        payload = run_timeout(limit, func)
        outcome = 'value'
    except TimeoutError:
        outcome = 'timeout'
    except (KeyboardInterrupt, SystemError) as e:
        outcome = 'stray'
        res.add(viol('caller_received_interrupt', f'{case}: {type(e).__name__}: {e}', data=d0))
    except BaseException as e:  # noqa
        outcome = 'exception'
        payload = e
    t_ret = time.monotonic()
    # when a timeout is reported, the function must be over (returned, raised or aborted): the limiter waits for that.
    # (The thread that ran it may still be alive for a moment, unwinding or idling in its pool: what the statement rules
    # out is a thread 'still executing the function'.)
    alive_at_return = state.thread is not None and state.thread.is_alive()
    finished_at_return = state.finished is not None
    if outcome == 'timeout' and state.thread is not None and not state.exited:
        res.add(viol('worker_alive_after_timeout', f'{case}: TimeoutError returned while the function is still being '
                                                   f'executed by its worker thread (alive={alive_at_return})', data=d0))
    # stray interrupt shortly after?
    try:
        x = 0
        t_end = time.monotonic()+0.05
        while time.monotonic() < t_end:
            x += 1
    except BaseException as e:  # noqa
        res.add(viol('caller_received_interrupt', f'{case}: after return {type(e).__name__}: {e}', data=d0))
    # heartbeat must have stopped
    b1, i1 = state.beats, state.inner_beats
    time.sleep(0.03)
    b2, i2 = state.beats, state.inner_beats
    if outcome == 'timeout' and not finished_at_return and state.finished is not None:
        res.add(viol('function_completed_after_return', f'{case}: the function finished ({state.finished}) after '
                                                        f'run_timeout had already raised TimeoutError', data=d0))
    if b2 != b1:
        res.add(viol('function_still_running_after_return', f'{case}: heartbeat advanced {b1} -> {b2} after run_timeout '
                                                             f'returned ({outcome})', data=d0))
    if i2 != i1:
        res.add(viol('inner_function_still_running_after_return', f'{case}: inner heartbeat advanced {i1} -> {i2} after the '
                                                                   f'outer run_timeout returned ({outcome})', data=d0))
    # outcome trichotomy
    if outcome == 'value':
        exp = value if not kind.startswith('nested') else None
        if state.finished != 'returned':
            res.add(viol('value_without_completion', f'{case}: returned {payload!r} but the function did not return',
                         data=d0))
        elif kind.startswith('nested'):
            # which inner outcome occurs depends on when the worker threads got scheduled: both are legitimate
            if not (isinstance(payload, tuple) and payload[0] == value and payload[1] in ('inner_timeout', 'inner')):
                res.add(viol('wrong_value', f'{case}: {payload!r}', data=d0))
        elif payload != exp:
            res.add(viol('wrong_value', f'{case}: {payload!r} != {exp!r}', data=d0))
    elif outcome == 'exception':
        if kind != 'raise' or state.finished != 'raised':
            res.add(viol('foreign_exception', f'{case}: {type(payload).__name__}: {payload}', data=d0))
        elif type(payload) is not exc_cls or payload.args != ('own', case['delta_ms']):
            res.add(viol('exception_altered', f'{case}: {type(payload).__name__}{payload.args}', data=d0))
    elif outcome == 'timeout':
        if state.elapsed is not None and state.elapsed < limit-0.15 and kind in ('return', 'raise'):
            res.add(viol('timeout_although_finished_in_time', f'{case}: function finished after {state.elapsed:.3f}s, '
                                                              f'limit {limit}s', data=d0))
    # a following call is unaffected
    try:
        if run_timeout(2.0, lambda: 42) != 42:
            res.add(viol('following_call_wrong', f'{case}', data=d0))
    except BaseException as e:  # noqa
        res.add(viol('following_call_failed', f'{case}: {type(e).__name__}: {e}', data=d0))
    res.evaluations = 2
    res.nontrivial = abs(case['delta_ms']) <= 15 or kind in ('swallow', 'native', 'retry_loop') or kind.startswith('nested')
    res.classes = ['kind_'+kind, 'outcome_'+str(outcome), 'near_expiry' if abs(case['delta_ms']) <= 15 else 'far']
    if state.swallowed:
        res.classes.append('interrupt_swallowed')
    res.sample = {'case': case, 'outcome': outcome, 'function_finished': state.finished,
                  'function_elapsed_s': None if state.elapsed is None else round(state.elapsed, 4),
                  'returned_after_s': round(t_ret-t0, 4)}
    return res
