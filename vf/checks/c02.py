"""C02 - an instance is exactly the derivation closure of the choices made (DESIGN.md 6/C02)"""
from hypothesis import strategies as st
from .. import specs, refsel, dsgwalk
from ..core import Result, viol, exc_sig

ID = 'C02'
RULE = ('cases = generated G-SEL spec (derivation DAGs/cycles, shared options, several choices per node, multiple start '
        'nodes, 0-2 incompatibilities); all orders of taking active selection choices explored through the DSG API as a '
        'DAG of decision sets (<= 1200 states in quick, 20000 in thorough, else truncated and counted as excluded); oracle = closure judged on the '
        'instance + set equality with R-SEL + same decision set => same END state (intermediate states that differ only in pending forced choices are explored separately and counted); non-trivial = >= 2 selection choices '
        'offered at the same time somewhere in the walk, or a shared-option / cycle label, and >= 2 reference '
        'architectures; distinct by sha1(spec)')
FUZZ_MODULES = ['adsg_core.graph.traversal', 'adsg_core.graph.choices', 'adsg_core.graph.incompatibility', 'adsg_core.graph.influence_matrix']   # thorough tier: atheris campaign over these modules (vf/fuzz.py)
FUZZ_RUNS = 4000
BUDGET = {'quick': 600, 'thorough': 10000}
MAX_STATES = {'quick': 1200, 'thorough': 20000}


def strategy(tier):
    return st.fixed_dictionaries({'spec': st.one_of(specs.sel_spec(max_nodes=10 if tier == 'quick' else 12, max_incompat=2),
                                                    specs.sel_spec(max_nodes=10 if tier == 'quick' else 12, max_incompat=2,
                                                                   dag_rich=True),
                                                    specs.layered_spec(max_incompat=2))})


def check_case(case, tier='quick', prop=ID):
    import os, time, json
    t0 = time.time()
    try:
        return _check_case(case, tier, prop)
    finally:
        if os.environ.get('VF_TIMING') and time.time()-t0 > 5:
            print('SLOW', round(time.time()-t0, 1), json.dumps(case)[:1500], flush=True)


def _check_case(case, tier='quick', prop=ID):
    res = Result()
    spec = case['spec']
    res.classes = specs.labels(spec)
    model = refsel.Model(spec)
    try:
        archs = model.sel_architectures(arch_max=5000)
    except refsel.TooLarge:
        res.excluded = True
        return res
    ref = {model.sel_ident(a): a for a in archs}
    w = dsgwalk.walk(spec, max_states=MAX_STATES.get(case.get('tier', tier), 3000), record_offered=(prop == 'C06'))
    res.evaluations = max(1, w.states)
    if w.build_exc is not None:
        e = w.build_exc
        res.add(viol('build_exception', f'{type(e).__name__}: {e} |ref|={len(ref)}', sig=f'build_exception:{exc_sig(e)}',
                     data={'msg': str(e)[:300], 'n_ref': len(ref)}))
        return res
    if w.truncated:
        res.excluded = True
        return res
    for dec, sig, msg in w.exceptions[:3]:
        res.add(viol('walk_exception', f'decisions={dec} {msg}', sig=f'walk_exception:{sig}',
                     data={'msg': msg, 'decisions': dec}))
    for dec, a, b_ in w.order_conflicts[:2]:
        res.add(viol('order_dependent', f'decisions={dec}\n first={_fmt(a)}\n later={_fmt(b_)}',
                     data={'decisions': dec}))
    feasible_idents = {}
    for leaf in w.leaves:
        if not leaf['feasible']:
            continue
        key = leaf['ident']
        feasible_idents.setdefault(key, leaf)
        for kind, det in dsgwalk.closure_violations(w.b, leaf['inst'], spec):
            res.add(viol('final_not_closed', f'{kind} {det} decisions={leaf["decisions"]} nodes={sorted(key[0])}',
                         sig=f'final_not_closed:{kind}',
                         data={'nodes': sorted(key[0]), 'sel': [list(e) for e, _ in key[1]], 'sub': kind, 'det': det}))
        if not leaf['final']:
            res.add(viol('leaf_not_final', f'decisions={leaf["decisions"]} nodes={sorted(key[0])}',
                         data={'nodes': sorted(key[0]), 'sel': [list(e) for e, _ in key[1]]}))
        if key not in ref:
            bad = [p for p in spec.get('incompat', []) if p[0] in key[0] and p[1] in key[0]]
            res.add(viol('extra_architecture', f'decisions={leaf["decisions"]} nodes={sorted(key[0])} sel={key[1]} '
                                               f'incompatible_pairs_inside={bad}',
                         data={'nodes': sorted(key[0]), 'sel': [list(e) for e, _ in key[1]], 'pairs_inside': bad}))
        if len(res.violations) > 40:
            break
    missing = [k for k in ref if k not in feasible_idents]
    for k in missing[:2]:
        res.add(viol('missing_architecture', f'nodes={sorted(k[0])} sel={k[1]} assign={ref[k]["assign"]}',
                     data={'nodes': sorted(k[0]), 'sel': [list(e) for e, _ in k[1]], 'assign': ref[k]['assign']}))
    if w.initial_feasible is False and ref:
        res.add(viol('initial_infeasible_but_ref_nonempty', f'|ref|={len(ref)}', data={'n_ref': len(ref)}))
    res.walk = w
    res.ref = ref
    lab = set(res.classes)
    res.nontrivial = len(ref) >= 2 and (w.max_parallel >= 2 or 'shared_option' in lab or 'has_cycle' in lab)
    res.classes.append('parallel_choices' if w.max_parallel >= 2 else 'sequential_only')
    if w.intermediate_differs:
        res.classes.append('intermediate_state_depends_on_order')
    res.classes.append('ref_empty' if not ref else 'ref_nonempty')
    res.sample = {'spec': spec, 'states': w.states, 'revisits': w.revisits, 'leaves': len(w.leaves),
                  'n_ref_arch': len(ref), 'max_parallel_choices': w.max_parallel}
    res.n_ref = len(ref)
    return res


def _fmt(sid):
    return f'nodes={sorted(sid[0])} sel={sid[1]} feasible={sid[2]} next={sid[3]}'


def target(case, res):
    return min(getattr(res, 'n_ref', 0), 30)
