"""C03 - the corrected design vector is a canonical fixed point describing the instance (DESIGN.md 6/C03)"""
from hypothesis import strategies as st
from .. import specs, refsel, proc
from ..core import Result, viol, exc_sig
from ..observe import observe, decode_one
from . import c01

ID = 'C03'
RULE = ('cases = generated DSG spec (G-SEL u G-CON u G-CONN u G-DV) x encoder x every vector of the declared space (<= 512, '
        'else corners + 192 pseudo-random); oracle = corrected vector in range and of declared length, decode(x_corr) '
        'reproduces (x_corr, active, architecture), active selection variables name the option wired to the originating '
        'node, existing design-variable nodes carry the reported value, different corrected vectors => different '
        'architectures; non-trivial = >= 1 correction and >= 2 distinct corrected vectors; distinct by sha1(spec, encoder)')
BUDGET = {'quick': 150, 'thorough': 5000}


def strategy(tier):
    return c01.strategy(tier)


def check_case(case):
    res = Result()
    spec = case['spec']
    res.classes = specs.labels(spec)+['enc_'+case['enc']]
    obs = observe(case, keep_inst=True)
    res.evaluations = max(1, len(obs.records))
    if obs.build_exc is not None:
        res.classes.append('construct_failed_not_judged_here')  # C01 judges construction
        return res
    meta = obs.des_vars
    by_xc = {}
    by_ident = {}
    corrected = False
    spec_choices = {c['id']: c for c in spec['choices']}
    for rec in obs.records:
        if rec['exc'] is not None:
            continue   # C01 judges totality
        xc, act, idn = rec['x_corr'], rec['active'], rec['ident']
        d0 = {'enc': case['enc'], 'x': rec['x'], 'x_corr': xc}
        if not proc.in_range(meta, xc) or len(act) != len(meta):
            res.add(viol('corrected_vector_out_of_range', f'x={rec["x"]} -> {xc} vars={[(m["name"], m["n_opts"] or m["bounds"]) for m in meta]}', data=d0))
            continue
        if xc != rec['x']:
            corrected = True
        # fixed point
        rec2 = decode_one(obs, obs.gp, xc)
        if rec2['exc'] is not None:
            res.add(viol('redecode_failed', f'x_corr={xc} {rec2["exc_msg"]}', sig=f'redecode_failed:{rec2["exc"]}',
                         data=dict(d0, msg=rec2['exc_msg'])))
        elif rec2['x_corr'] != xc or rec2['active'] != act or rec2['ident'] != idn:
            what = 'vector' if rec2['x_corr'] != xc else 'activeness' if rec2['active'] != act else 'architecture'
            res.add(viol('not_a_fixed_point', f'x={rec["x"]} -> {xc},{act}; again -> {rec2["x_corr"]},{rec2["active"]} '
                                              f'(differs in {what})', sig=f'not_a_fixed_point:{what}',
                         data=dict(d0, what=what)))
        # describes: selection choices
        sel_edges = {e for e, _ in idn[1]}
        for i, m in enumerate(meta):
            if m['kind'] == 'sel' and act[i]:
                c = spec_choices.get(m['node'])
                if c is None or m['options'] is None:
                    continue
                opt = m['options'][int(xc[i])]
                if (c['origin'], opt) not in sel_edges:
                    res.add(viol('vector_names_other_option', f'x={rec["x"]} x_corr={xc}: variable {m["name"]}={xc[i]} names '
                                                              f'{opt} but the instance wires {sorted(e for e in sel_edges if e[0] == c["origin"])}',
                                 data=dict(d0, var=m['name'], origin_in_instance=c['origin'] in idn[0])))
            if m['kind'] == 'dv' and act[i] and m['discrete']:
                vals = dict(idn[3])
                if m['node'] in vals and vals[m['node']] != int(xc[i]):
                    res.add(viol('dv_node_value_differs_from_vector', f'x={rec["x"]} x_corr={xc}: {m["node"]} stores '
                                                                      f'{vals[m["node"]]}', data=d0))
            if m['kind'] == 'dv' and act[i] and not m['discrete'] and rec.get('inst') is not None:
                val = rec['inst'].des_var_value(obs.b.node[m['node']])
                if val is None or abs(val-xc[i]) > 1e-9*max(1.0, abs(xc[i])):
                    res.add(viol('dv_node_value_differs_from_vector', f'x={rec["x"]} x_corr={xc}: {m["node"]} stores {val}',
                                 data=d0))
        # injectivity (discrete columns; continuous values are not part of the identity)
        key = proc.discrete_part(meta, xc)
        ik = proc.rec_key(rec)
        if key in by_xc and by_xc[key][0] != ik:
            res.add(viol('same_vector_different_architecture', f'x_corr={xc}: from x={by_xc[key][1]} and x={rec["x"]}', data=d0))
        by_xc.setdefault(key, (ik, rec['x']))
        if ik in by_ident and by_ident[ik][0] != key:
            res.add(viol('different_vectors_same_architecture',
                         f'x_corr={by_ident[ik][1]} and x_corr={xc} denote nodes={sorted(ik[0])} sel={ik[1]} conn={ik[2]}',
                         data=dict(d0, other=by_ident[ik][1], nodes=sorted(ik[0]), sel=[list(e) for e, _ in ik[1]])))
        by_ident.setdefault(ik, (key, xc))
        if len(res.violations) > 40:
            break
    res.nontrivial = corrected and len(by_xc) >= 2
    res.sample = {'spec': spec, 'enc': case['enc'], 'n_vectors': len(obs.records), 'n_corrected_vectors': len(by_xc)}
    return res
