"""C05 - decoding is a pure function of graph, fixed values and vector (DESIGN.md 6/C05)"""
import os
import sys
import json
import pickle
import subprocess
import tempfile
import itertools
from hypothesis import strategies as st
from ..strat import ints
from .. import specs, build, proc
from ..core import Result, viol, exc_sig, VERIF
from ..observe import observe, decode_one, dv_meta, all_vectors, lcg_vectors, Obs

ID = 'C05'
RULE = ('cases = generated DSG spec x encoder x an operation history of 2-8 steps over {decode(x, create), enumerate, '
        'statistics, n_valid, fix, free, mutate the returned instance (design-variable / metric value, extra node), pickle '
        'round trip of the processor}; after EVERY step a probe set of vectors (all if <= 32, else 10) is decoded on the '
        'long-lived processor and on a freshly built processor on a freshly built graph with the same fixed values and '
        'must give the same (x_corr, active, architecture), and up to 12 probe vectors are additionally decoded each as '
        'the FIRST decode of its own fresh processor (the probe sequence is a history too); create=False must agree with create=True; consecutive decodes '
        'must return distinct, unaffected objects; seed-independent core: all histories of length <= 3 over a 7-letter '
        'alphabet on 4 fixed specs; other-process part: the decode table of a spec is recomputed in child processes '
        'with PYTHONHASHSEED in {1, 2, 12345} and another node-id salt; one evaluation = one history step; non-trivial = '
        'history has a fix...free pair or an instance mutation followed by a decode; distinct by sha1(case)')
BUDGET = {'quick': 24, 'thorough': 1000}
OPS = ['decode', 'decode', 'decode_nocreate', 'enumerate', 'stats', 'n_valid', 'fix', 'fix', 'free', 'mutate', 'pickle']
N_SINGLE = 12
ALPHABET = ['decode', 'decode_nocreate', 'enumerate', 'fix', 'free', 'mutate', 'pickle']


@st.composite
def _case(draw, tier):
    kind = draw(ints(0, 5))
    if kind == 0:
        # two connection choices that are active together (caches keyed by earlier connection choices)
        spec = draw(specs.sel_spec(min_nodes=3, max_nodes=5, max_incompat=0, p_extra=False))
        spec = draw(specs.add_conns(spec, max_choices=2, min_choices=2, small=True, start_bias=6, allow_grp=False))
    elif kind == 1:
        # coupled choices: merged scenario with missing value combinations (imputation inside the scenario)
        spec = draw(specs.coupled_spec())
        if draw(st.booleans()):
            spec = draw(specs.add_dvs(spec, max_dv=1))
    else:
        spec = draw(specs.full_spec(max_nodes=8, p_conn=0.2, p_dv=0.5, p_con=0.1, small_conn=True))
    if draw(ints(0, 2)) == 0:
        spec = draw(specs.add_metrics(spec, max_met=2))
    n = draw(ints(2, 6 if tier == 'quick' else 8))
    ops = [[draw(st.sampled_from(OPS)), draw(ints(0, 60)), draw(ints(0, 60))] for _ in range(n)]
    template = draw(st.sampled_from(['random', 'fixfree', 'mutate']))
    if template == 'fixfree':
        ops = [['fix', draw(ints(0, 60)), draw(ints(0, 60))]]+ops[:2]+[['free', 0, 0]]+ops[2:4]
    elif template == 'mutate':
        ops = [['decode', draw(ints(0, 60)), 0], ['mutate', draw(ints(0, 60)), 0],
               ['decode', draw(ints(0, 60)), 0]]+ops[:2]
    return {'spec': spec, 'enc': draw(st.sampled_from(['COMPLETE', 'FAST'])), 'ops': ops,
            'vseed': draw(ints(0, 9999))}


def strategy(tier):
    return _case(tier)


def _fixed_specs():
    from . import c11, c13
    s1 = {'salt': 0, 'nodes': {n: {'k': 'gen'} for n in ['a', 'b', 'c', 'd', 'e']}, 'edges': [['b', 'e']],
          'choices': [{'id': 'c0', 'origin': 'a', 'opts': ['b', 'c']}, {'id': 'c1', 'origin': 'b', 'opts': ['d', 'e']}],
          'incompat': [], 'start': ['a'], 'conns': [], 'cons': []}
    s1['nodes']['dv'] = {'k': 'dv', 'opts': 3}
    s1['edges'].append(['c', 'dv'])
    s2 = c11.theory_conn_example()
    s3 = c13.con_spec('LINKED', 2, 3, 'perm')
    from .. import refsel
    s4 = dict(refsel.theory_example(), salt=0, conns=[], cons=[])
    # two coupled choices (one value pair excluded) and a dependent choice
    s5 = {'salt': 0, 'nodes': {n: {'k': 'gen'} for n in ['n1', 'n2', 'n3', 'n11', 'n12', 'n21', 'n22', 'n31', 'n32', 'n33']},
          'edges': [['n22', 'n3']], 'choices': [{'id': 'c1', 'origin': 'n1', 'opts': ['n11', 'n12']},
                                                 {'id': 'c2', 'origin': 'n2', 'opts': ['n21', 'n22']},
                                                 {'id': 'c3', 'origin': 'n3', 'opts': ['n31', 'n32', 'n33']}],
          'incompat': [['n11', 'n21']], 'start': ['n1', 'n2'], 'conns': [], 'cons': []}
    return [s1, s2, s3, s4, s5]


def fixed_cases(tier):
    max_len = 2 if tier == 'quick' else 3
    for i_spec, spec in enumerate(_fixed_specs()):
        for enc in ('COMPLETE', 'FAST'):
            for n in range(1, max_len+1):
                for seq in itertools.product(ALPHABET, repeat=n):
                    if tier == 'quick' and n == 2 and (hash(seq) % 3) and False:
                        continue
                    yield {'spec': spec, 'enc': enc, 'ops': [[op, 1+k, 1+2*k] for k, op in enumerate(seq)], 'vseed': 7,
                           'fixed_core': True}
    # other-process comparison
    for i_spec, spec in enumerate(_fixed_specs()):
        yield {'spec': spec, 'enc': 'COMPLETE', 'child': True, 'vseed': 3}


# ------------------------------------------------------------------------------------------------------------------

def _table(obs, gp, vectors, create=True):
    out = []
    for x in vectors:
        rec = decode_one(obs, gp, x, create=create)
        if rec['exc'] is not None:
            out.append(('exc', rec['exc'].split('@')[0]))
        elif create:
            out.append((tuple(rec['x_corr']), tuple(rec['active']), proc.rec_key(rec)))
        else:
            out.append((tuple(rec['x_corr']), tuple(rec['active'])))
    return out


def _fresh(spec, enc, fixed_names):
    """Freshly built graph + processor with the same fixed values (same node ids: only the history differs)"""
    b = build.build(spec)
    gp = build.processor(b, enc)
    all_vars_ = list(gp.all_des_vars)
    for idx, val in fixed_names.items():    # keyed by position: displayed names need not be unique
        gp.fix_des_var(all_vars_[idx], val)
    o = Obs()
    o.b, o.gp = b, gp
    return o


def table_jsonable(t):
    return json.loads(json.dumps(t, default=lambda o: sorted(o) if isinstance(o, (set, frozenset)) else str(o)))


def child_table(spec, enc, vseed, hashseed, salt):
    env = dict(os.environ, PYTHONHASHSEED=str(hashseed), PYTHONPATH=os.pathsep.join([build.repo_path(), VERIF]))
    with tempfile.TemporaryDirectory() as tmp:
        env['XDG_CACHE_HOME'] = tmp
        inp = os.path.join(tmp, 'in.json')
        with open(inp, 'w') as fp:
            json.dump({'spec': dict(spec, salt=salt), 'enc': enc, 'vseed': vseed}, fp)
        out = subprocess.run([sys.executable, '-m', 'vf.child', inp], env=env, cwd=VERIF, capture_output=True, text=True,
                             timeout=600)
        if out.returncode != 0:
            raise RuntimeError(f'child failed: {out.stderr[-800:]}')
        return json.loads(out.stdout.strip().splitlines()[-1])


def parent_table(spec, enc, vseed):
    obs = observe({'spec': spec, 'enc': enc, 'vseed': vseed}, max_enum=128, n_sample=32)
    if obs.build_exc is not None:
        return {'build_exc': type(obs.build_exc).__name__}
    rows = []
    for rec in obs.records:
        if rec['exc'] is not None:
            rows.append(['exc', rec['exc'].split('@')[0]])
        else:
            k = proc.rec_key(rec)
            rows.append([rec['x'], rec['x_corr'], rec['active'], sorted(k[0]), [list(map(str, e)) for e in k[1]],
                         [list(map(str, e)) for e in k[2]], [list(e) for e in k[3]]])
    return {'des_vars': [[m['name'], m['n_opts'], m['bounds'], m['cond']] for m in obs.des_vars],
            'rows': table_jsonable(rows)}


def check_child(case, res):
    spec, enc = case['spec'], case['enc']
    build.reset_globals()
    mine = parent_table(spec, enc, case.get('vseed', 0))
    n = 0
    for hs, salt in ((1, 0), (2, 5), (12345, 3)):
        other = child_table(spec, enc, case.get('vseed', 0), hs, salt)
        n += 1
        if other != mine:
            what = 'des_vars' if other.get('des_vars') != mine.get('des_vars') else 'decode table'
            res.add(viol('other_process_differs', f'PYTHONHASHSEED={hs} salt={salt}: {what} differs', data={'what': what}))
            break
    res.evaluations = n
    res.nontrivial = len(mine.get('rows', [])) >= 4
    res.classes = ['other_process']
    res.sample = {'spec': spec, 'hash_seeds': [1, 2, 12345], 'n_vectors': len(mine.get('rows', []))}


def check_case(case):
    res = Result()
    if case.get('child'):
        check_child(case, res)
        return res
    spec, enc = case['spec'], case['enc']
    res.classes = specs.labels(spec)+['enc_'+enc]
    obs = observe(case, vectors=[])
    if obs.build_exc is not None:
        res.classes.append('construct_failed_not_judged_here')
        return res
    gp, b = obs.gp, obs.b
    meta_all = obs.des_vars
    all_vars = list(gp.all_des_vars)
    fixed = {}       # idx -> value
    last_inst = None
    mutated_then_decoded = False
    had_fix_free = False
    pending_mutation = False
    n_steps = 0
    d0 = {'enc': enc, 'history': case['ops']}
    single_ref = {}
    for op, a, v in case['ops']:
        n_steps += 1
        free_idx = [i for i in range(len(all_vars)) if i not in fixed]
        meta_now = [meta_all[i] for i in free_idx]
        done = op
        try:
            if op in ('decode', 'decode_nocreate'):
                vec = lcg_vectors(meta_now, case.get('vseed', 0)+a, 1)[0] if meta_now else []
                inst, xc, act = gp.get_graph(vec, create=(op == 'decode'))
                if op == 'decode' and inst is not None:
                    inst2, xc2, act2 = gp.get_graph(vec, create=True)
                    if inst2 is inst:
                        res.add(viol('same_instance_object_returned_twice', f'x={vec}', data=d0))
                    last_inst = inst
                    if pending_mutation:
                        mutated_then_decoded = True
            elif op == 'enumerate':
                gp.get_all_discrete_x()
            elif op == 'stats':
                gp.get_statistics()
            elif op == 'n_valid':
                gp.get_n_valid_designs(with_fixed=bool(a % 2))
                gp.get_imputation_ratio()
            elif op == 'fix':
                cand = [i for i in free_idx if meta_all[i]['kind'] != 'conn']
                if not cand:
                    done = 'skip'
                else:
                    i = cand[a % len(cand)]
                    m = meta_all[i]
                    val = (v % m['n_opts']) if m['discrete'] else m['bounds'][v % 2]
                    gp.fix_des_var(all_vars[i], val)
                    fixed[i] = val
            elif op == 'free':
                if fixed:
                    i = sorted(fixed)[a % len(fixed)]
                    gp.free_des_var(all_vars[i])
                    del fixed[i]
                    had_fix_free = True
                else:
                    done = 'skip'
            elif op == 'mutate':
                if last_inst is None:
                    done = 'skip'
                else:
                    from adsg_core.graph.adsg_nodes import NamedNode
                    for node in last_inst.des_var_nodes:
                        last_inst.set_des_var_value(node, 0 if node.is_discrete else node.bounds[0])
                    for node in last_inst.metric_nodes:
                        last_inst.set_metric_value(node, 123.0)
                    extra = NamedNode('intruder')
                    last_inst.graph.add_node(extra)
                    some = [n for n in last_inst.graph.nodes if n is not extra]
                    if some:
                        last_inst.graph.remove_node(some[a % len(some)])
                    pending_mutation = True
            elif op == 'pickle':
                gp = pickle.loads(pickle.dumps(gp))
                all_vars = list(gp.all_des_vars)
                obs.gp = gp
        except Exception as e:  # noqa
            if exc_sig(e).endswith('@harness'):
                raise
            res.classes.append('step_exception_not_judged_here')   # totality is C01 / C15
            done = 'exc'
        # --- compare with a fresh processor ---
        free_idx = [i for i in range(len(all_vars)) if i not in fixed]
        meta_now = [meta_all[i] for i in free_idx]
        vectors, _ = all_vectors(meta_now, 32)
        if vectors is None:
            vectors = lcg_vectors(meta_now, case.get('vseed', 0), 10)
        try:
            fresh = _fresh(spec, enc, dict(fixed))
        except Exception as e:  # noqa
            if exc_sig(e).endswith('@harness'):
                raise
            res.classes.append('fresh_build_failed')
            continue
        t_live = _table(obs, gp, vectors)
        t_fresh = _table(fresh, fresh.gp, vectors)
        # the probe decodes are a history themselves: a second reference decodes every probe vector on its OWN fresh
        # processor (first decode of its life), cached per fixed-values configuration
        fkey = tuple(sorted(fixed.items()))
        if fkey not in single_ref:
            step = max(1, len(vectors)//N_SINGLE)
            idx = list(range(0, len(vectors), step))[:N_SINGLE]
            ref = {}
            for j in idx:
                try:
                    f1 = _fresh(spec, enc, dict(fixed))
                    ref[j] = _table(f1, f1.gp, [vectors[j]])[0]
                except Exception as e:  # noqa
                    if exc_sig(e).endswith('@harness'):
                        raise
            single_ref[fkey] = ref
        ref = single_ref[fkey]
        bad = [j for j in sorted(ref) if t_fresh[j] != ref[j]]
        if bad:
            k = bad[0]
            res.add(viol('history_dependent', f'fresh processor with fixed={ {meta_all[i]["name"]: vv for i, vv in fixed.items()} }'
                                              f': x={vectors[k]} decodes to {ref[k][:2]} as the first decode and to '
                                              f'{t_fresh[k][:2]} after decoding {vectors[:k]}',
                         data=dict(d0, step=n_steps, op='probe_sequence', n_fixed=len(fixed),
                                   differs_in='vector' if t_fresh[k][:2] != ref[k][:2] else 'architecture')))
            break
        if t_live != t_fresh:
            k = [j for j in range(len(vectors)) if t_live[j] != t_fresh[j]][0]
            res.add(viol('history_dependent', f'after step {n_steps} ({op}) of {case["ops"][:n_steps]} with fixed='
                                              f'{ {meta_all[i]["name"]: vv for i, vv in fixed.items()} }: x={vectors[k]} '
                                              f'decodes to {t_live[k][:2]} on the used processor and {t_fresh[k][:2]} on a '
                                              f'fresh one', data=dict(d0, step=n_steps, op=op, n_fixed=len(fixed),
                                                                      differs_in='vector' if t_live[k][:2] != t_fresh[k][:2]
                                                                      else 'architecture')))
            break
        t_nc = _table(obs, gp, vectors, create=False)
        bad = [j for j in range(len(vectors)) if t_nc[j][0] != 'exc' and t_live[j][0] != 'exc'
               and t_nc[j][:2] != t_live[j][:2]]
        if bad:
            k = bad[0]
            res.add(viol('create_flag_changes_result', f'x={vectors[k]}: create=True {t_live[k][:2]} create=False {t_nc[k]}',
                         data=dict(d0, step=n_steps, op=op)))
            break
    res.evaluations = max(1, n_steps)
    res.nontrivial = had_fix_free or mutated_then_decoded
    res.sample = {'spec': spec, 'enc': enc, 'ops': case['ops'],
                  'des_vars': [(m['name'], m['kind'], m['n_opts'] or m['bounds']) for m in meta_all]}
    return res
