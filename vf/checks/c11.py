"""C11 - connection choices respect connectors in every existence scenario (DESIGN.md 6/C11)"""
from collections import Counter
from hypothesis import strategies as st
from ..strat import ints
from .. import specs, refsel, build, identity
from ..core import Result, viol, exc_sig
from ..observe import observe
from . import c01

ID = 'C11'
RULE = ('cases = generated G-CONN spec (1-2 connection choices, 1-3 x 1-3 connectors from a 14-letter degree alphabet, '
        'permanent or under selection options, grouping nodes with conditional members, exclusion edges) on a small '
        'G-SEL graph; for every R-SEL selection architecture the selection choices are resolved through the DSG API and '
        'iter_conn_edges / validate_conn_edges / get_for_apply_connection_choice are compared with R-CONN over the '
        'connectors present; processor level: enumerated designs (COMPLETE) == reference full architectures, FAST decodes '
        'only to scenarios with a valid set; one evaluation = one (scenario, connection choice); non-trivial = >= 2 '
        'scenarios with different valid-set counts; distinct by sha1(spec)')
BUDGET = {'quick': 30, 'thorough': 600}


@st.composite
def _spec(draw, tier):
    spec = draw(specs.sel_spec(min_nodes=3, max_nodes=7, max_incompat=0, p_extra=False))
    spec = draw(specs.add_conns(spec, max_choices=2 if draw(ints(0, 2)) == 0 else 1, start_bias=0))
    return spec


def strategy(tier):
    return st.fixed_dictionaries({'spec': st.one_of(_spec(tier), _spec(tier), _spec(tier), specs.excl_pattern_spec()),
                                  'vseed': ints(0, 9999)})


def fixed_cases(tier):
    yield {'spec': theory_conn_example(), 'vseed': 0}


def theory_conn_example():
    """docs/theory.md connection example: Grp(S1, S2 each 1..2; S2 conditional via C1), S3 0..2?, T1, T2"""
    nodes = {n: {'k': 'gen'} for n in ['A', 'B', 'N']}
    nodes.update({
        'S1': {'k': 'conn', 'deg': [1, 2], 'rep': False}, 'S2': {'k': 'conn', 'deg': [1, 2], 'rep': False},
        'Grp': {'k': 'grp'}, 'S3': {'k': 'conn', 'deg': [0, 1, 2], 'rep': False},
        'T1': {'k': 'conn', 'deg': [1], 'rep': False}, 'T2': {'k': 'conn', 'deg': [0, 2], 'rep': True},
    })
    return {'salt': 0, 'nodes': nodes,
            'edges': [['A', 'S1'], ['B', 'S2'], ['A', 'S3'], ['A', 'T1'], ['A', 'T2']],
            'choices': [{'id': 'C1', 'origin': 'A', 'opts': ['B', 'N']}], 'incompat': [], 'start': ['A'],
            'conns': [{'id': 'C2', 'src': [{'grp': 'Grp', 'members': ['S1', 'S2']}, 'S3'], 'tgt': ['T1', 'T2'],
                       'excl': []}], 'cons': []}


def resolve_selection(b, assign):
    from adsg_core.graph.adsg_nodes import SelectionChoiceNode
    g = b.dsg
    for _ in range(100):
        nxt = [c for c in g.get_ordered_next_choice_nodes() if isinstance(c, SelectionChoiceNode)]
        if not nxt:
            return g
        cid = b.nm(nxt[0])
        if cid not in assign:
            return None
        g = g.get_for_apply_selection_choice(nxt[0], b.node[assign[cid]])
    return None


def _edges_key(b, edges):
    return tuple(sorted((b.nm(s), b.nm(t)) for s, t in edges))


def check_case(case):
    from adsg_core.graph.graph_edges import EdgeType
    res = Result()
    spec = case['spec']
    res.classes = specs.labels(spec)
    model = refsel.Model(spec)
    try:
        sel_archs = model.sel_architectures(arch_max=400)
        scen = []
        for a in sel_archs:
            per_cc = [model.conn_sets(cc, a['nodes']) for cc in spec['conns']]
            scen.append((a, per_cc))
    except refsel.TooLarge:
        res.excluded = True
        return res
    if any(s is not None and len(s) > 300 for _, per_cc in scen for s in per_cc):
        res.excluded = True
        return res
    build.reset_globals()
    try:
        b = build.build(spec)
    except Exception as e:  # noqa
        if exc_sig(e).endswith('@harness'):
            raise
        res.add(viol('build_exception', f'{type(e).__name__}: {e}', sig=f'build_exception:{exc_sig(e)}',
                     data={'msg': str(e)[:300]}))
        return res

    counts = set()
    n_eval = 0
    skipped = 0
    for arch, per_cc in scen:
        try:
            g = resolve_selection(b, arch['assign'])
        except Exception as e:  # noqa
            if exc_sig(e).endswith('@harness'):
                raise
            skipped += 1
            continue
        if g is None:
            skipped += 1
            continue
        names = frozenset(b.nm(n) for n in g.graph.nodes)
        if frozenset(n for n in names if n in spec['nodes']) != arch['nodes']:
            skipped += 1   # selection-level disagreement is C02's subject
            continue
        for cc, ref_sets in zip(spec['conns'], per_cc):
            ccn = b.conn_choice[cc['id']]
            n_eval += 1
            d0 = {'cc': cc['id'], 'scenario': sorted(arch['nodes']), 'assign': arch['assign']}
            if ccn not in g.graph.nodes:
                # no source present
                if ref_sets is not None and ref_sets != [()]:
                    res.add(viol('choice_node_missing', f'{cc["id"]} absent but reference has sets', data=d0))
                continue
            try:
                got = [_edges_key(b, e) for e in ccn.iter_conn_edges(g)]
            except Exception as e:  # noqa
                if exc_sig(e).endswith('@harness'):
                    raise
                res.add(viol('iter_conn_edges_exception', f'{cc["id"]} scenario={sorted(arch["nodes"])} '
                                                          f'{type(e).__name__}: {e}',
                             sig=f'iter_conn_edges_exception:{exc_sig(e)}', data=dict(d0, msg=str(e)[:300])))
                continue
            ref = ref_sets or []
            counts.add(len(ref))
            cg, cr = Counter(got), Counter(ref)
            if cg != cr:
                extra = sorted((cg-cr).keys())[:2]
                missing = sorted((cr-cg).keys())[:2]
                kind = 'offered_invalid_connection_set' if extra else 'valid_connection_set_not_offered'
                if not extra and not missing:
                    kind = 'connection_set_offered_twice'
                res.add(viol(kind, f'{cc["id"]} scenario={sorted(arch["nodes"])} extra={extra} missing={missing} '
                                   f'n_got={len(got)} n_ref={len(ref)}', data=dict(d0, extra=extra, missing=missing)))
                continue
            # validation of enumerated sets and perturbations
            ref_set = set(ref)
            settings, src_names, tgt_names, _ = model.conn_settings(cc, arch['nodes'])
            cand = list(ref[:6])
            pert = []
            for edges in ref[:4]:
                for s in src_names:
                    for t in tgt_names:
                        pert.append(tuple(sorted(edges+((s, t),))))
                for i in range(len(edges)):
                    pert.append(tuple(edges[:i]+edges[i+1:]))
            for edges in cand+pert[:40]:
                exp = edges in ref_set
                try:
                    val = bool(ccn.validate_conn_edges(g, [(b.node[s], b.node[t]) for s, t in edges])) \
                        if len(edges) > 0 or True else exp
                except Exception as e:  # noqa
                    if exc_sig(e).endswith('@harness'):
                        raise
                    res.add(viol('validate_conn_edges_exception', f'{type(e).__name__}: {e}',
                                 sig=f'validate_conn_edges_exception:{exc_sig(e)}', data=dict(d0, msg=str(e)[:300])))
                    break
                if val != exp:
                    res.add(viol('validate_conn_edges_accepts_invalid' if val else 'validate_conn_edges_rejects_valid',
                                 f'{cc["id"]} scenario={sorted(arch["nodes"])} edges={edges}', data=dict(d0, edges=edges)))
                    break
            # applying
            for edges in ref[:3]:
                try:
                    inst = g.get_for_apply_connection_choice(ccn, [(b.node[s], b.node[t]) for s, t in edges])
                except Exception as e:  # noqa
                    if exc_sig(e).endswith('@harness'):
                        raise
                    res.add(viol('apply_valid_set_exception', f'{cc["id"]} edges={edges} {type(e).__name__}: {e}',
                                 sig=f'apply_valid_set_exception:{exc_sig(e)}', data=dict(d0, msg=str(e)[:300])))
                    break
                idn = identity.instance_ident(b, inst, with_dv=False)
                applied = identity.conn_edges_of(idn, model, cc)
                excl_left = [1 for _, _, dd in inst.graph.edges(data=True) if dd.get('type') == EdgeType.EXCLUDES
                             ]
                own_excl = [p for p in cc.get('excl', [])]
                if applied != edges or ccn in inst.graph.nodes:
                    res.add(viol('applied_edges_differ', f'{cc["id"]} applied={edges} found={applied} '
                                                         f'choice_left={ccn in inst.graph.nodes}', data=d0))
                    break
                if len(spec['conns']) == 1 and not inst.feasible:
                    res.add(viol('instance_infeasible_after_valid_set', f'{cc["id"]} edges={edges} '
                                                                        f'scenario={sorted(arch["nodes"])}', data=d0))
                    break
                if len(spec['conns']) == 1 and own_excl and excl_left:
                    res.add(viol('exclusion_edges_left', f'{cc["id"]}', data=d0))
                    break
            for edges in [p for p in pert if p not in ref_set][:2]:
                try:
                    g.get_for_apply_connection_choice(ccn, [(b.node[s], b.node[t]) for s, t in edges])
                    if len(edges) > 0:  # an empty edge list is not validated by the API (documented by the code path)
                        res.add(viol('invalid_set_applied_without_error', f'{cc["id"]} edges={edges}',
                                     data=dict(d0, edges=edges)))
                except ValueError:
                    pass
                except Exception as e:  # noqa
                    if exc_sig(e).endswith('@harness'):
                        raise
                    res.add(viol('apply_invalid_set_wrong_exception', f'{type(e).__name__}: {e}',
                                 sig=f'apply_invalid_set_wrong_exception:{exc_sig(e)}', data=dict(d0, msg=str(e)[:300])))
            if len(res.violations) > 40:
                break
        if len(res.violations) > 40:
            break

    # processor level
    if not res.violations:
        feas = [(a, per_cc) for a, per_cc in scen if all(s is not None for s in per_cc)]
        ref_sel = {model.sel_ident(a): a for a, _ in feas}
        n_full = 0
        counted = set()
        for a, per_cc in feas:
            if model.sel_ident(a) in counted:   # two assignments that produce the identical graph are one design
                continue
            counted.add(model.sel_ident(a))
            n = 1
            for s in per_cc:
                n *= len(s)
            n_full += n
        for enc in ('COMPLETE', 'FAST'):
            obs = observe({'spec': spec, 'enc': enc, 'vseed': case.get('vseed', 0)}, max_enum=400, n_sample=96)
            n_eval += len(obs.records)
            if obs.build_exc is not None:
                e = obs.build_exc
                if ref_sel or type(e).__name__ not in c01.EXPLICIT:
                    res.add(viol('construct_failed', f'{enc} stage={obs.build_stage} {type(e).__name__}: {e} '
                                                     f'|ref|={len(ref_sel)}', sig=f'construct_failed:{exc_sig(e)}',
                                 data={'enc': enc, 'msg': str(e)[:300], 'n_ref': len(ref_sel)}))
                continue
            seen = set()
            for rec in obs.records:
                if rec['exc'] is not None:
                    if ref_sel:
                        res.add(viol('decode_failed', f'{enc} x={rec["x"]} {rec["exc_msg"]}',
                                     sig=f'decode_failed:{rec["exc"]}', data={'enc': enc, 'msg': rec['exc_msg']}))
                        break
                    continue
                bad = c01.membership_violations(model, ref_sel, rec, spec)
                if not rec['final']:
                    bad.append(viol('not_final', f'x={rec["x"]}'))
                if not rec['feasible']:
                    bad.append(viol('not_feasible', f'x={rec["x"]}'))
                for v in bad[:1]:
                    v['detail'] = f'{enc} '+v['detail']
                    v['data'] = dict(v.get('data') or {}, enc=enc)
                    res.add(v)
                if bad:
                    break
                seen.add((rec['ident'][0], rec['ident'][1], rec['ident'][2]))
            if obs.exhaustive and not res.violations and not any(nd['k'] == 'dv' for nd in spec['nodes'].values()):
                if len(seen) != n_full:
                    res.add(viol('reachable_designs_differ', f'{enc} reached {len(seen)} distinct designs, reference has '
                                                             f'{n_full}', data={'enc': enc}))
    res.evaluations = max(1, n_eval)
    res.nontrivial = len(counts) >= 2
    if skipped:
        res.classes.append('scenario_skipped_selection_disagrees')
    res.classes.append('has_infeasible_scenario' if any(s is None for _, per_cc in scen for s in per_cc)
                       else 'all_scenarios_feasible')
    res.sample = {'spec': spec, 'n_scenarios': len(scen),
                  'valid_set_counts': sorted(counts)}
    return res
