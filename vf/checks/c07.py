"""C07 - activeness and imputation follow one contract on every path (DESIGN.md 6/C07)"""
import numpy as np
from hypothesis import strategies as st
from .. import specs, proc
from ..core import Result, viol, exc_sig
from ..observe import observe, decode_one
from . import c01

ID = 'C07'
RULE = ('cases = generated DSG spec x encoder x every vector of the declared space (<= 512, else sampled); oracle = active '
        '=> the choice/design-variable node of the variable exists in the decoded architecture (selection: originating '
        'node kept; connection: a source connector kept; DV: node kept), inactive => canonical value (0 / mid-bounds), not '
        'conditionally active => active in every decode and every enumerated row, and for every enumerated valid row the '
        'activeness listed == decode(create=True) == decode(create=False) == decode of every raw vector corrected to it; '
        'non-trivial = a design with an inactive variable reached both directly and through correction; distinct by '
        'sha1(spec, encoder)')
BUDGET = {'quick': 150, 'thorough': 5000}


def strategy(tier):
    return c01.strategy(tier)


def check_case(case):
    res = Result()
    spec = case['spec']
    enc = case['enc']
    res.classes = specs.labels(spec)+['enc_'+enc]
    obs = observe(case)
    res.evaluations = max(1, len(obs.records))
    if obs.build_exc is not None:
        res.classes.append('construct_failed_not_judged_here')
        return res
    meta, gp = obs.des_vars, obs.gp
    conn_src = {}
    for cc in spec.get('conns', []):
        conn_src[cc['id']] = [it['grp'] if isinstance(it, dict) else it for it in cc['src']]
    origin = {c['id']: c['origin'] for c in spec['choices']}
    by_corr = {}
    d0 = {'enc': enc}
    for rec in obs.records:
        if rec['exc'] is not None:
            continue
        xc, act, idn = rec['x_corr'], rec['active'], rec['ident']
        if len(xc) != len(meta) or len(act) != len(meta):
            continue  # C03
        names = idn[0]
        for i, m in enumerate(meta):
            if act[i]:
                if m['kind'] == 'sel' and origin.get(m['node']) not in names:
                    res.add(viol('active_but_choice_absent', f'x={rec["x"]}: {m["name"]} active, originating node '
                                                             f'{origin.get(m["node"])} not in instance', data=dict(d0, kind_var='sel')))
                elif m['kind'] == 'conn' and not any(s in names for s in conn_src.get(m['node'], [])):
                    res.add(viol('active_but_choice_absent', f'x={rec["x"]}: {m["name"]} active, no source connector of '
                                                             f'{m["node"]} in instance', data=dict(d0, kind_var='conn')))
                elif m['kind'] == 'dv' and m['node'] not in names:
                    res.add(viol('active_but_choice_absent', f'x={rec["x"]}: {m["name"]} active, node absent',
                                 data=dict(d0, kind_var='dv')))
            else:
                canon = 0 if m['discrete'] else (m['bounds'][0]+m['bounds'][1])/2
                if abs(xc[i]-canon) > 1e-12*max(1.0, abs(canon)):
                    res.add(viol('inactive_not_canonical', f'x={rec["x"]}: {m["name"]} inactive with value {xc[i]} '
                                                           f'(canonical {canon})', data=d0))
                if not m['cond']:
                    res.add(viol('unconditional_variable_inactive', f'x={rec["x"]} -> {xc}: {m["name"]} is not flagged '
                                                                    f'conditionally active but is inactive',
                                 data=dict(d0, kind_var=m['kind'], var=m['name'])))
        key = proc.discrete_part(meta, xc)
        by_corr.setdefault(key, []).append(rec)
        if len(res.violations) > 40:
            break
    # the same corrected design must report one activeness, however it was reached
    both = False
    for key, recs in by_corr.items():
        acts = {tuple(r['active']) for r in recs}
        direct = [r for r in recs if proc.discrete_part(meta, r['x']) == key]
        if direct and len(recs) > len(direct) and not all(recs[0]['active']):
            both = True
        if len(acts) > 1:
            acts_l = sorted(acts)
            diff = sorted({meta[i]['kind'] for i in range(len(meta)) if len({a[i] for a in acts_l}) > 1})
            res.add(viol('activeness_depends_on_path', f'corrected design {key}: activeness '
                                                       f'{acts_l} from raw vectors {[r["x"] for r in recs][:4]}',
                         data=dict(d0, kinds=[m['kind'] for m in meta], diff_kinds=diff)))
            break
    # enumeration vs decode (COMPLETE)
    if enc == 'COMPLETE' and not res.violations:
        try:
            out = gp.get_all_discrete_x()
        except Exception:  # noqa
            out = None   # C04 judges the enumeration itself
        if out is not None:
            X, A = np.asarray(out[0]), np.asarray(out[1])
            for r in range(min(X.shape[0], 300)):
                x = [float(X[r, i]) if not meta[i]['discrete'] else int(X[r, i]) for i in range(len(meta))]
                listed = [bool(a) for a in A[r]]
                for i, m in enumerate(meta):
                    if not m['cond'] and not listed[i]:
                        res.add(viol('unconditional_variable_inactive', f'enumerated row {x}: {m["name"]} inactive',
                                     data=dict(d0, kind_var=m['kind'], var=m['name'])))
                for create in (True, False):
                    rec = decode_one(obs, gp, x, create=create)
                    if rec['exc'] is not None:
                        continue
                    if proc.discrete_part(meta, rec['x_corr']) != proc.discrete_part(meta, x):
                        continue  # C04
                    if rec['active'] != listed:
                        diff = sorted({meta[i]['kind'] for i in range(len(meta)) if listed[i] != rec['active'][i]})
                        res.add(viol('enumeration_activeness_differs_from_decode',
                                     f'row {x}: listed {listed}, decode(create={create}) {rec["active"]}',
                                     data=dict(d0, create=create, kinds=[m['kind'] for m in meta], diff_kinds=diff)))
                        break
                key = proc.discrete_part(meta, x)
                for rec in by_corr.get(key, []):
                    if rec['active'] != listed:
                        diff = sorted({meta[i]['kind'] for i in range(len(meta)) if listed[i] != rec['active'][i]})
                        res.add(viol('enumeration_activeness_differs_from_decode',
                                     f'row {x}: listed {listed}, raw vector {rec["x"]} corrected to it reports '
                                     f'{rec["active"]}', data=dict(d0, create='corrected', kinds=[m['kind'] for m in meta],
                                                                  diff_kinds=diff)))
                        break
                if len(res.violations) > 40:
                    break
    # the same contract holds on every path also while a variable is fixed (the processor has served decodes and an
    # enumeration by now) and after it is freed again
    if enc == 'COMPLETE' and not res.violations and case.get('vseed', 0) % 2 == 0:
        sel = [i for i, m in enumerate(meta) if m['kind'] == 'sel']
        if sel:
            i_fix = sel[case.get('vseed', 0) // 2 % len(sel)]
            val = (case.get('vseed', 0) // 7) % meta[i_fix]['n_opts']
            all_vars = list(gp.all_des_vars)
            try:
                gp.fix_des_var(all_vars[i_fix], val)
                meta_f = [m for i, m in enumerate(meta) if i != i_fix]
                out = gp.get_all_discrete_x()
                if out is not None:
                    X, A = np.asarray(out[0]), np.asarray(out[1])
                    res.classes.append('with_fixed_variable')
                    for r in range(min(X.shape[0], 60)):
                        x = [float(X[r, i]) if not meta_f[i]['discrete'] else int(X[r, i]) for i in range(len(meta_f))]
                        listed = [bool(a) for a in A[r]]
                        for create in (True, False):
                            rec = decode_one(obs, gp, x, create=create)
                            if rec['exc'] is not None or \
                                    proc.discrete_part(meta_f, rec['x_corr']) != proc.discrete_part(meta_f, x):
                                continue   # C15
                            if rec['active'] != listed:
                                diff = sorted({meta_f[i]['kind'] for i in range(len(meta_f)) if listed[i] != rec['active'][i]})
                                res.add(viol('enumeration_activeness_differs_from_decode',
                                             f'with {meta[i_fix]["name"]} fixed to {val}: row {x}: listed {listed}, '
                                             f'decode(create={create}) {rec["active"]}',
                                             data=dict(d0, create=create, kinds=[m['kind'] for m in meta_f], diff_kinds=diff,
                                                       with_fixed=True)))
                                break
                        if res.violations:
                            break
            except Exception as e:  # noqa
                if exc_sig(e).endswith('@harness'):
                    raise
                res.classes.append('fix_step_exception_not_judged_here')   # C15
            finally:
                try:
                    gp.free_des_var(all_vars[i_fix])
                except Exception:  # noqa
                    pass
    res.nontrivial = both
    res.sample = {'spec': spec, 'enc': enc, 'n_vectors': len(obs.records), 'n_corrected_designs': len(by_corr),
                  'conditional_flags': [(m['name'], m['cond']) for m in meta]}
    return res
