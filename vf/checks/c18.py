"""C18 - identity, equality and serialization of graphs are structural and stable (DESIGN.md 6/C18)"""
import os
import sys
import json
import pickle
import tempfile
import subprocess
from hypothesis import strategies as st
from ..strat import ints
from .. import specs, build, proc
from ..core import Result, viol, exc_sig, VERIF
from ..observe import dv_meta, all_vectors, lcg_vectors

ID = 'C18'
RULE = ('cases = generated DSG spec x (a) every applicable single structural edit {add node, remove node, add edge of each '
        'type, remove edge, add start node, add choice constraint} applied to a copy: copy == original with equal hash '
        'before, unequal after, original untouched; (b) exports: GML has one node block per node and one edge block per '
        'edge, DOT has one node per node; (c) transport: graph and processor pickled in a child process started with '
        'another PYTHONHASHSEED and node-id salt, loaded here: is_same / equal fingerprint with the local build, same '
        'design variables, same vector -> (x_corr, active, architecture by node names) table as the local build and as '
        'the child itself; one evaluation = one edit / one transported table; non-trivial = >= 4 kinds of edit applied '
        'or a transported processor with >= 4 decoded vectors; distinct by sha1(case)')
BUDGET = {'quick': 40, 'thorough': 1000}
CHILD_EVERY = {'quick': 8, 'thorough': 4}


@st.composite
def _case(draw, tier):
    spec = draw(specs.full_spec(max_nodes=8, p_conn=0.25, p_dv=0.4, p_con=0.2, small_conn=True))
    if draw(ints(0, 3)) == 0:
        spec = draw(specs.add_metrics(spec, max_met=2))
    if draw(ints(0, 2)) == 0:
        spec['obj_ids'] = True   # string identities: node hashes depend on the process's hash seed
    return {'spec': spec, 'pick': draw(ints(0, 10**6)),
            'transport': draw(ints(0, CHILD_EVERY[tier]-1)) == 0,
            'hashseed': draw(st.sampled_from([1, 2, 12345])), 'salt': draw(st.sampled_from([0, 3, 5]))}


def strategy(tier):
    return _case(tier)


def _tie_specs():
    """Shared option nodes whose kept option id ties with a sibling's (add_selection_choice only numbers options that
    have no id yet): the option order must not depend on hashes"""
    out = []
    for obj_ids in (False, True):
        nodes = {n: {'k': 'gen'} for n in ['r', 'sa', 'sb', 'sc', 'x', 'y', 'z', 'w', 'v', 'lx', 'ly', 'lz', 'lw', 'lv']}
        out.append({'salt': 0, 'obj_ids': obj_ids, 'nodes': nodes,
                    'edges': [['r', 'sa'], ['r', 'sb'], ['r', 'sc'], ['x', 'lx'], ['y', 'ly'], ['z', 'lz'], ['w', 'lw'],
                              ['v', 'lv']],
                    'choices': [{'id': 'A', 'origin': 'sa', 'opts': ['x', 'y']},
                                {'id': 'B', 'origin': 'sb', 'opts': ['z', 'x', 'w']},
                                {'id': 'C', 'origin': 'sc', 'opts': ['v', 'x']}],
                    'incompat': [], 'start': ['r'], 'conns': [], 'cons': []})
    return out


def fixed_cases(tier):
    # seed independent: tie specs rebuilt in processes with other hash seeds / node-id salts
    for spec in _tie_specs():
        for hs, salt in ((1, 3), (2, 5), (3, 0), (12345, 3), (7, 5), (8, 0)):
            yield {'spec': spec, 'pick': 5, 'transport': True, 'hashseed': hs, 'salt': salt}


def name_of(node):
    for attr in ('name', 'decision_id'):
        v = getattr(node, attr, None)
        if v is not None:
            return f'{type(node).__name__}:{v}'
    return str(node)


def graph_summary(g):
    from adsg_core.graph.graph_edges import EdgeType
    nodes = sorted(name_of(n) for n in g.graph.nodes)
    edges = sorted((name_of(u), name_of(v), str(d.get('type'))) for u, v, d in g.graph.edges(data=True))
    return nodes, edges


def decode_table(gp, vseed):
    meta = [{'discrete': bool(dv.is_discrete), 'n_opts': dv.n_opts if dv.is_discrete else None,
             'bounds': None if dv.is_discrete else [float(dv.bounds[0]), float(dv.bounds[1])], 'name': dv.name,
             'cond': bool(dv.conditionally_active)} for dv in gp.des_vars]
    vectors, _ = all_vectors(meta, 48)
    if vectors is None:
        vectors = lcg_vectors(meta, vseed, 16)
    rows = []
    for x in vectors:
        try:
            inst, xc, act = gp.get_graph(list(x))
            nodes, edges = graph_summary(inst)
            rows.append([x, [float(v) for v in xc], [bool(a) for a in act], nodes, [list(e) for e in edges]])
        except Exception as e:  # noqa
            rows.append([x, 'exc', type(e).__name__])
    return {'des_vars': [[m['name'], m['n_opts'], m['bounds'], m['cond']] for m in meta], 'rows': rows}


def child_main(path_in, path_out):
    """Runs in the child: build, pickle graph + processor, compute own table"""
    with open(path_in) as fp:
        job = json.load(fp)
    build.ensure_path()
    b = build.build(job['spec'], salt=job['salt'])
    gp = build.processor(b, 'COMPLETE')
    _ = gp.des_vars
    blob = pickle.dumps({'dsg': b.dsg, 'gp': gp})
    table = decode_table(gp, job.get('vseed', 0))
    with open(path_out, 'wb') as fp:
        pickle.dump({'blob': blob, 'table': table, 'summary': graph_summary(b.dsg)}, fp)


def run_child(spec, hashseed, salt, vseed):
    env = dict(os.environ, PYTHONHASHSEED=str(hashseed), PYTHONPATH=os.pathsep.join([build.repo_path(), VERIF]))
    with tempfile.TemporaryDirectory() as tmp:
        env['XDG_CACHE_HOME'] = tmp
        pin, pout = os.path.join(tmp, 'in.json'), os.path.join(tmp, 'out.pkl')
        with open(pin, 'w') as fp:
            json.dump({'spec': spec, 'salt': salt, 'vseed': vseed}, fp)
        out = subprocess.run([sys.executable, '-c', f'from vf.checks import c18; c18.child_main({pin!r}, {pout!r})'],
                             env=env, cwd=VERIF, capture_output=True, text=True, timeout=600)
        if out.returncode != 0:
            return None, out.stderr[-600:]
        with open(pout, 'rb') as fp:
            return pickle.load(fp), None


def check_case(case):
    from adsg_core.graph.adsg_nodes import NamedNode, ChoiceNode, SelectionChoiceNode, DesignVariableNode
    from adsg_core.graph.graph_edges import EdgeType, add_edge
    from adsg_core.graph.adsg import ChoiceConstraintType
    res = Result()
    spec = case['spec']
    res.classes = specs.labels(spec)
    build.reset_globals()
    try:
        b = build.build(spec)
    except Exception as e:  # noqa
        if exc_sig(e).endswith('@harness'):
            raise
        res.classes.append('construct_failed_not_judged_here')
        return res
    g = b.dsg
    n_eval = 0
    pick = case['pick']

    def fresh_copy():
        c = g.copy()
        return c

    c0 = fresh_copy()
    try:
        if not (c0 == g) or hash(c0) != hash(g):
            res.add(viol('copy_not_equal', f'copy == original: {c0 == g}; hashes {hash(c0)} {hash(g)}'))
        if not c0.is_same(g) or c0.fingerprint() != g.fingerprint():
            res.add(viol('copy_not_same', 'is_same / fingerprint differ for a copy'))
    except Exception as e:  # noqa
        if exc_sig(e).endswith('@harness'):
            raise
        res.add(viol('equality_exception', f'{type(e).__name__}: {e}', sig=f'equality_exception:{exc_sig(e)}'))
        return res
    h0 = hash(g)
    nodes = sorted(g.graph.nodes, key=name_of)
    plain = [n for n in nodes if not isinstance(n, ChoiceNode)]
    edges = sorted(g.graph.edges(keys=True, data=True), key=lambda e: (name_of(e[0]), name_of(e[1]), str(e[3].get('type'))))
    kinds_done = []

    def judge(kind, c):
        nonlocal n_eval
        n_eval += 1
        kinds_done.append(kind)
        try:
            if c == g or hash(c) == hash(g):
                res.add(viol('edit_not_detected', f'{kind}: edited copy still equal to the original / same hash',
                             data={'edit': kind}))
            if hash(g) != h0:
                res.add(viol('original_changed_by_edit_on_copy', f'{kind}', data={'edit': kind}))
            if not (fresh_copy() == g):
                res.add(viol('copy_not_equal', f'after {kind}'))
        except Exception as e:  # noqa
            if exc_sig(e).endswith('@harness'):
                raise
            res.add(viol('equality_exception', f'{kind}: {type(e).__name__}: {e}',
                         sig=f'equality_exception:{exc_sig(e)}', data={'edit': kind}))

    if plain:
        c = fresh_copy()
        c.graph.add_node(NamedNode('extra_node'))
        judge('add_node', c)
        c = fresh_copy()
        victim = plain[pick % len(plain)]
        c.graph.remove_node(victim)
        judge('remove_node', c)
        u, v = plain[pick % len(plain)], plain[(pick//7+1) % len(plain)]
        for et in (EdgeType.DERIVES, EdgeType.INCOMPATIBILITY, EdgeType.EXCLUDES, EdgeType.CONNECTS):
            c = fresh_copy()
            add_edge(c.graph, u, v, edge_type=et)
            judge('add_edge_'+et.name, c)
    if edges:
        c = fresh_copy()
        e = edges[pick % len(edges)]
        c.graph.remove_edge(e[0], e[1], key=e[2])
        judge('remove_edge_'+str(e[3].get('type').name), c)
    start = set(g.derivation_start_nodes or [])
    others = [n for n in plain if n not in start]
    if others:
        c = fresh_copy()
        c._start_nodes = set(start) | {others[pick % len(others)]}
        judge('add_start_node', c)
    sel = [n for n in nodes if isinstance(n, SelectionChoiceNode) and c0.is_constrained_choice(n) is None]
    same_n = {}
    for n in sel:
        same_n.setdefault(len(g.get_option_nodes(n)), []).append(n)
    pairs = [v for v in same_n.values() if len(v) >= 2]
    if pairs:
        c = fresh_copy()
        try:
            c2 = c.constrain_choices(ChoiceConstraintType.LINKED, pairs[0][:2], remove_infeasible_choices=False)
            n_eval += 1
            kinds_done.append('add_constraint')
            if c2 == g or hash(c2) == hash(g):
                res.add(viol('edit_not_detected', 'add_constraint: constrained copy still equal to the original',
                             data={'edit': 'add_constraint'}))
            if hash(g) != h0 or len(g.get_choice_constraints()) != len(fresh_copy().get_choice_constraints()):
                res.add(viol('original_changed_by_edit_on_copy', 'add_constraint', data={'edit': 'add_constraint'}))
        except Exception as e:  # noqa
            if exc_sig(e).endswith('@harness'):
                raise
            res.classes.append('constrain_failed')
    # (b) exports
    try:
        gml = g.export_gml()
        n_nodes_gml = gml.count('\n  node [')
        n_edges_gml = gml.count('\n  edge [')
        if n_nodes_gml != len(g.graph.nodes) or n_edges_gml != len(g.graph.edges):
            res.add(viol('gml_export_incomplete', f'{n_nodes_gml}/{len(g.graph.nodes)} nodes {n_edges_gml}/'
                                                  f'{len(g.graph.edges)} edges'))
        dot = g.export_dot(return_dot=True)
        n_dot_nodes = len([n for n in dot.get_nodes() if n.get_name() not in ('graph', 'node', 'edge')])
        if n_dot_nodes != len(g.graph.nodes):
            res.add(viol('dot_export_incomplete', f'{n_dot_nodes}/{len(g.graph.nodes)} nodes'))
        pairs_adj = {(u, v) for u, v in g.graph.edges()}
        und = {frozenset(p) for p in pairs_adj}
        if len(dot.get_edges()) < len(und):
            res.add(viol('dot_export_incomplete', f'{len(dot.get_edges())} dot edges for {len(und)} adjacent pairs'))
        n_eval += 2
    except Exception as e:  # noqa
        if exc_sig(e).endswith('@harness'):
            raise
        res.add(viol('export_exception', f'{type(e).__name__}: {e}', sig=f'export_exception:{exc_sig(e)}'))
    # pickle in-process
    try:
        g2 = pickle.loads(pickle.dumps(g))
        if not g2.is_same(g) or not g.is_same(g2):
            res.add(viol('pickled_graph_not_same', 'in-process pickle round trip'))
        n_eval += 1
    except Exception as e:  # noqa
        if exc_sig(e).endswith('@harness'):
            raise
        res.add(viol('pickle_exception', f'{type(e).__name__}: {e}', sig=f'pickle_exception:{exc_sig(e)}'))

    # (c) transport from another process
    transported = 0
    if case.get('transport') and not res.violations:
        try:
            gp = build.processor(b, 'COMPLETE')
            mine = decode_table(gp, case['pick'])
        except Exception:  # noqa
            mine = None
        if mine is not None:
            data, err = run_child(spec, case['hashseed'], case['salt'], case['pick'])
            if data is None:
                res.classes.append('child_failed')
            else:
                obj = pickle.loads(data['blob'])
                d0 = {'hashseed': case['hashseed'], 'salt': case['salt']}
                if not obj['dsg'].is_same(g) or not g.is_same(obj['dsg']) or obj['dsg'].fingerprint() != g.fingerprint():
                    res.add(viol('transported_graph_not_same', f'is_same={obj["dsg"].is_same(g)} fingerprints '
                                                               f'{obj["dsg"].fingerprint()} vs {g.fingerprint()}', data=d0))
                if data['summary'] != graph_summary(g) and json.loads(json.dumps(data['summary'])) != \
                        json.loads(json.dumps(graph_summary(g))):
                    res.add(viol('other_process_builds_other_graph', 'node/edge summary differs', data=d0))
                theirs = decode_table(obj['gp'], case['pick'])
                jm, jt, jc = (json.loads(json.dumps(t)) for t in (mine, theirs, data['table']))
                if jt['des_vars'] != jm['des_vars']:
                    res.add(viol('transported_processor_other_design_variables', f'{jt["des_vars"]} vs {jm["des_vars"]}',
                                 data=d0))
                elif jt['rows'] != jm['rows']:
                    k = [i for i in range(len(jm['rows'])) if jm['rows'][i] != jt['rows'][i]][0]
                    res.add(viol('transported_processor_decodes_differently', f'x={jm["rows"][k][0]}: local '
                                                                              f'{jm["rows"][k][1:3]} transported '
                                                                              f'{jt["rows"][k][1:3]}', data=d0))
                elif jc != jm:
                    res.add(viol('other_process_decodes_differently', 'table computed in the child differs', data=d0))
                transported = len(jm['rows'])
                n_eval += 1
                res.classes.append('transported')
    res.evaluations = max(1, n_eval)
    res.nontrivial = len(set(kinds_done)) >= 4 or transported >= 4
    res.sample = {'spec': spec, 'edits': kinds_done, 'transported_vectors': transported}
    return res
