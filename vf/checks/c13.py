"""C13 - choice constraints admit exactly the documented index combinations (DESIGN.md 6/C13)"""
import itertools
import numpy as np
from hypothesis import strategies as st
from ..strat import ints
from .. import specs, refsel, build, dsgwalk, identity
from ..core import Result, viol, exc_sig
from ..observe import observe
from . import c01

ID = 'C13'
RULE = ('exhaustive core: 4 constraint types x {2,3} choices x {2,3,4} options x placements {all permanent, hierarchical '
        '(under first/last option), hierarchical against id order, mutually exclusive, two permanent + one conditional} '
        '(unsatisfiable sizes only for the all-permanent placement, where the documentation and the statement agree) x '
        '{all orders through the DSG API, COMPLETE encoder, FAST encoder}; unit level: get_valid_idx_combinations on the '
        'complete index matrix over {-1,0,1,2}^k, k<=3 and on generated sub-matrices; random: G-CON on top of G-SEL, '
        'linked design-variable nodes; oracle = R-SEL with the index predicate; non-trivial = the constraint removes >= 1 '
        'and keeps >= 1 combination; distinct by sha1(spec, mode)')
FUZZ_MODULES = ['adsg_core.graph.choice_constraints', 'adsg_core.graph.choices']   # thorough tier: atheris campaign over these modules (vf/fuzz.py)
FUZZ_RUNS = 4000
BUDGET = {'quick': 600, 'thorough': 6000}
TYPES = ['LINKED', 'PERMUTATION', 'UNORDERED', 'UNORDERED_NOREPL']
PLACEMENTS = ['perm', 'hier_first', 'hier_last', 'hier_rev_first', 'hier_rev_last', 'mutex', 'two_plus_cond',
              'two_plus_cond_rev', 'pool', 'window']


def con_spec(t, n_ch, n_opt, placement):
    nodes = {'s': {'k': 'gen'}}
    choices = []
    ids = [f'x{i}' for i in range(n_ch)]
    if '_rev' in placement:
        ids = list(reversed(ids))
    opts = {}
    for i in range(n_ch):
        opts[i] = [f'{ids[i]}o{j}' for j in range(n_opt)]
        for o in opts[i]:
            nodes[o] = {'k': 'gen'}
    if placement in ('pool', 'window'):
        # shared option nodes: one pool for all constrained choices, or overlapping sliding windows of a longer pool; every
        # choice on its own permanent originating node (so that equal selections stay distinguishable)
        for o in [o_ for i in range(n_ch) for o_ in opts[i]]:
            del nodes[o]
        pool = [f'po{j}' for j in range(n_opt+(n_ch-1 if placement == 'window' else 0))]
        for o in pool:
            nodes[o] = {'k': 'gen'}
        origins = []
        for i in range(n_ch):
            opts[i] = pool[i:i+n_opt] if placement == 'window' else list(pool)
            nodes[f'h{i}'] = {'k': 'gen'}
            origins.append(f'h{i}')
    elif placement == 'perm':
        origins = ['s']*n_ch
    elif placement.startswith('hier'):
        pick = 0 if placement.endswith('first') else n_opt-1
        origins = ['s']+[opts[i-1][pick] for i in range(1, n_ch)]
    elif placement == 'mutex':
        for i in range(n_ch):
            nodes[f'mx{i}'] = {'k': 'gen'}
        choices.append({'id': 'mx', 'origin': 's', 'opts': [f'mx{i}' for i in range(n_ch)]})
        origins = [f'mx{i}' for i in range(n_ch)]
    elif placement.startswith('two_plus_cond'):
        nodes['p0'] = {'k': 'gen'}
        nodes['p1'] = {'k': 'gen'}
        choices.append({'id': 'p', 'origin': 's', 'opts': ['p0', 'p1']})
        origins = ['s']*(n_ch-1)+['p0']
    else:
        raise ValueError(placement)
    for i in range(n_ch):
        choices.append({'id': ids[i], 'origin': origins[i], 'opts': opts[i]})
    edges = [['s', f'h{i}'] for i in range(n_ch)] if placement in ('pool', 'window') else []
    return {'salt': 0, 'nodes': nodes, 'edges': edges, 'choices': choices, 'incompat': [], 'start': ['s'], 'conns': [],
            'cons': [{'type': t, 'on': sorted(ids), 'placement': placement}]}


def fixed_cases(tier):
    for k in (2, 3):
        for t in TYPES:
            yield {'unit': {'type': t, 'k': k}}
    for t in TYPES:
        for n_ch in (2, 3):
            for n_opt in (2, 3, 4):
                for pl in PLACEMENTS:
                    if pl.startswith('two_plus') and n_ch < 3 and pl.endswith('rev'):
                        continue
                    if n_ch > n_opt and t in ('PERMUTATION', 'UNORDERED_NOREPL') and pl != 'perm':
                        continue
                    for mode in ('walk', 'COMPLETE', 'FAST'):
                        yield {'spec': con_spec(t, n_ch, n_opt, pl), 'mode': mode}


@st.composite
def _random_case(draw, tier):
    spec = draw(specs.sel_spec(min_nodes=3, max_nodes=7, max_incompat=0, p_extra=False))
    kind = draw(st.sampled_from(['con', 'con', 'con', 'ldv']))
    if kind == 'con':
        spec = draw(specs.add_constraint(spec))
        con = spec['cons'][-1]
        n_ch = len(con['on'])
        n_opt = len([c for c in spec['choices'] if c['id'] == con['on'][0]][0]['opts'])
        if n_ch > n_opt and con['type'] in ('PERMUTATION', 'UNORDERED_NOREPL') and con['placement'] != 'perm':
            con['type'] = 'UNORDERED'
    else:
        spec = draw(specs.add_linked_dvs(spec))
    return {'spec': spec, 'mode': draw(st.sampled_from(['walk', 'COMPLETE', 'FAST'])), 'vseed': draw(ints(0, 9999))}


def strategy(tier):
    return _random_case(tier)


# ------------------------------------------------------------------------------------------------------------------

def _naive_valid(row, t):
    act = [v for v in row if v != -1]
    if len(act) < 2:
        return True
    if t == 'LINKED':
        return len(set(act)) == 1
    if t == 'PERMUTATION':
        return len(set(act)) == len(act)
    if t == 'UNORDERED':
        return all(act[i] <= act[i+1] for i in range(len(act)-1))
    return all(act[i] < act[i+1] for i in range(len(act)-1))


def check_unit(case, res):
    from adsg_core.graph.choice_constraints import get_valid_idx_combinations, ChoiceConstraintType
    t, k = case['unit']['type'], case['unit']['k']
    rows = [list(r) for r in itertools.product([-1, 0, 1, 2], repeat=k)]
    sub = case['unit'].get('rows')
    if sub is not None:
        rows = [rows[i % len(rows)] for i in sub]
    if not rows:
        return
    arr = np.array(rows, dtype=int)
    try:
        got = sorted(int(i) for i in get_valid_idx_combinations(arr, ChoiceConstraintType[t], is_all_permanent=False))
    except Exception as e:  # noqa
        if exc_sig(e).endswith('@harness'):
            raise
        res.add(viol('unit_exception', f'{t} k={k} {type(e).__name__}: {e}', sig=f'unit_exception:{exc_sig(e)}'))
        return
    exp = [i for i, r in enumerate(rows) if _naive_valid(r, t)]
    if got != exp:
        diff = sorted(set(got) ^ set(exp))[:3]
        res.add(viol('unit_valid_combinations_differ', f'{t} k={k} rows differing: {[rows[i] for i in diff]} '
                                                       f'got={[i in got for i in diff]}', data={'type': t}))
    res.evaluations = len(rows)
    res.nontrivial = 0 < len(exp) < len(rows)
    res.classes = ['unit', 'con_'+t]
    res.sample = {'unit': case['unit'], 'n_rows': len(rows), 'n_valid': len(exp)}


def linked_dv_violations(b, spec, rec):
    out = []
    inst = rec.get('inst')
    if inst is None:
        return out
    names = rec['ident'][0]
    for con in spec.get('cons', []):
        members = [m for m in con['on'] if m in spec['nodes'] and spec['nodes'][m]['k'] == 'dv']
        present = [m for m in members if m in names]
        if len(present) < 2:
            continue
        vals = [inst.des_var_value(b.node[m]) for m in present]
        if any(v is None for v in vals):
            out.append(viol('linked_dv_without_value', f'x={rec["x"]} {dict(zip(present, vals))}',
                            data={'present': present, 'all_members': members}))
            continue
        if 'opts' in spec['nodes'][present[0]]:
            if len(set(vals)) != 1:
                out.append(viol('linked_dv_index_differs', f'x={rec["x"]} {dict(zip(present, vals))}'))
        else:
            rel = [(v-spec['nodes'][m]['bounds'][0])/(spec['nodes'][m]['bounds'][1]-spec['nodes'][m]['bounds'][0])
                   for m, v in zip(present, vals)]
            if max(rel)-min(rel) > 1e-9:
                out.append(viol('linked_dv_relative_position_differs', f'x={rec["x"]} {dict(zip(present, vals))}'))
    return out


def check_case(case):
    res = Result()
    build.ensure_path()
    if 'unit' in case:
        check_unit(case, res)
        return res
    spec = case['spec']
    mode = case['mode']
    res.classes = specs.labels(spec)+['mode_'+mode]
    model = refsel.Model(spec)
    try:
        archs, rejected = model.sel_architectures(arch_max=3000, with_infeasible=True)
    except refsel.TooLarge:
        res.excluded = True
        return res
    ref = {model.sel_ident(a): a for a in archs}
    # how many assignments does the constraint itself reject?
    free = refsel.Model(dict(spec, cons=[c for c in spec['cons'] if c['on'][0] in spec['nodes']]))
    try:
        n_free = len(free.sel_architectures(arch_max=3000))
    except refsel.TooLarge:
        n_free = len(ref)
    removes = n_free > len(ref)
    data_con = {'con': spec['cons'][-1] if spec['cons'] else None, 'mode': mode}

    if mode == 'walk':
        w = dsgwalk.walk(spec, max_states=4000)
        res.evaluations = max(1, w.states)
        if w.build_exc is not None:
            e = w.build_exc
            res.add(viol('build_exception', f'{type(e).__name__}: {e} |ref|={len(ref)}',
                         sig=f'build_exception:{exc_sig(e)}', data=dict(data_con, msg=str(e)[:300], n_ref=len(ref))))
            return res
        if w.truncated:
            res.excluded = True
            return res
        for dec, sig, msg in w.exceptions[:2]:
            res.add(viol('walk_exception', f'decisions={dec} {msg}', sig=f'walk_exception:{sig}',
                         data=dict(data_con, msg=msg)))
        got = {}
        for leaf in w.leaves:
            if leaf['feasible']:
                got.setdefault(leaf['ident'], leaf)
        for k, leaf in got.items():
            if k not in ref:
                res.add(viol('extra_architecture', f'walk decisions={leaf["decisions"]} sel={k[1]}',
                             data=dict(data_con, nodes=sorted(k[0]), sel=[list(e) for e, _ in k[1]])))
                break
        for k in ref:
            if k not in got:
                res.add(viol('missing_architecture', f'walk assign={ref[k]["assign"]}',
                             data=dict(data_con, nodes=sorted(k[0]), sel=[list(e) for e, _ in k[1]],
                                       assign=ref[k]['assign'])))
                break
        if w.initial_feasible is False and ref:
            res.add(viol('initial_infeasible_but_ref_nonempty', f'|ref|={len(ref)}', data=dict(data_con, n_ref=len(ref))))
    else:
        obs = observe({'spec': spec, 'enc': mode, 'vseed': case.get('vseed', 0)}, keep_inst=True)
        res.evaluations = max(1, len(obs.records))
        if obs.build_exc is not None:
            e = obs.build_exc
            if ref or type(e).__name__ not in c01.EXPLICIT:
                res.add(viol('construct_failed', f'stage={obs.build_stage} {type(e).__name__}: {e} |ref|={len(ref)}',
                             sig=f'construct_failed:{exc_sig(e)}',
                             data=dict(data_con, msg=str(e)[:300], n_ref=len(ref), stage=obs.build_stage)))
            return res
        seen = {}
        spec_choices = {c['id']: c for c in spec['choices']}
        for rec in obs.records:
            if rec['exc'] is not None:
                if ref:
                    res.add(viol('decode_failed', f'x={rec["x"]} {rec["exc_msg"]}', sig=f'decode_failed:{rec["exc"]}',
                                 data=dict(data_con, msg=rec['exc_msg'])))
                    break
                continue
            key = (rec['ident'][0], rec['ident'][1])
            seen.setdefault(key, rec)
            if key not in ref:
                res.add(viol('extra_architecture', f'{mode} x={rec["x"]} sel={key[1]}',
                             data=dict(data_con, nodes=sorted(key[0]), sel=[list(e) for e, _ in key[1]])))
                break
            for v in linked_dv_violations(obs.b, spec, rec):
                res.add(v)
            # the corrected vector describes the instance: every active selection variable names the wired option
            sel_edges = {e for e, _ in rec['ident'][1]}
            for i, m in enumerate(obs.des_vars):
                if m['kind'] == 'sel' and not rec['active'][i]:
                    c = spec_choices.get(m['node'])
                    if c is not None and c['origin'] in rec['ident'][0] and \
                            any((c['origin'], o) in sel_edges for o in c['opts']):
                        res.add(viol('taken_choice_reported_inactive',
                                     f'{mode} x={rec["x"]} x_corr={rec["x_corr"]} active={rec["active"]}: {m["name"]} is '
                                     f'reported inactive but its choice took an option: {sorted(sel_edges)}',
                                     data=dict(data_con)))
                        break
                if m['kind'] == 'sel' and rec['active'][i] and m.get('options') is not None:
                    c = spec_choices.get(m['node'])
                    if c is not None and (c['origin'], m['options'][int(rec['x_corr'][i])]) not in sel_edges:
                        res.add(viol('vector_names_other_option',
                                     f'{mode} x={rec["x"]} x_corr={rec["x_corr"]}: {m["name"]}={rec["x_corr"][i]} names '
                                     f'{m["options"][int(rec["x_corr"][i])]} but the instance wires {sorted(sel_edges)}',
                                     data=dict(data_con)))
                        break
            if len(res.violations) > 40:
                break
        if obs.exhaustive and not res.violations:
            for k in ref:
                if k not in seen:
                    res.add(viol('missing_architecture', f'{mode} never decoded: assign={ref[k]["assign"]}',
                                 data=dict(data_con, nodes=sorted(k[0]), sel=[list(e) for e, _ in k[1]],
                                           assign=ref[k]['assign'])))
                    break
        if mode == 'COMPLETE' and not res.violations and 'dv' not in res.classes:
            try:
                out = obs.gp.get_all_discrete_x()
                if out is not None:
                    n_rows = out[0].shape[0]
                    n_dv_combs = 1
                    if n_rows != sum(_dv_mult(model, a) for a in archs):
                        res.add(viol('enumeration_count_differs', f'rows={n_rows} reference={len(ref)}',
                                     data=dict(data_con)))
            except Exception as e:  # noqa
                if exc_sig(e).endswith('@harness'):
                    raise
                res.add(viol('enumerate_exception', f'{type(e).__name__}: {e}', sig=f'enumerate_exception:{exc_sig(e)}',
                             data=dict(data_con, msg=str(e)[:300])))
    res.nontrivial = removes and len(ref) >= 1
    res.classes.append('constraint_removes' if removes else 'constraint_inert')
    res.sample = {'spec': spec, 'mode': mode, 'n_ref_arch': len(ref), 'n_without_constraint': n_free}
    return res


def _dv_mult(model, arch):
    n = 1
    for dv in model._free_dvs(arch['nodes']):
        nd = model.nodes[dv]
        if 'opts' in nd:
            n *= nd['opts']
    return n


def extra_campaigns(tier):
    n = 30 if tier == 'quick' else 400
    unit = st.fixed_dictionaries({'unit': st.fixed_dictionaries({
        'type': st.sampled_from(TYPES), 'k': ints(2, 3),
        'rows': st.lists(ints(0, 63), min_size=1, max_size=12)})})
    return [('unit_submatrices', unit, n)]
