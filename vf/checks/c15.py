"""C15 - fixing a design variable restricts the design space exactly; freeing restores it (DESIGN.md 6/C15)"""
import numpy as np
from hypothesis import strategies as st
from ..strat import ints
from .. import specs, build, proc
from ..core import Result, viol, exc_sig
from ..observe import observe, decode_one, dv_meta, all_vectors, lcg_vectors

ID = 'C15'
RULE = ('cases = generated DSG spec x encoder x a history of up to 4 fix/free operations (variable and value drawn; all '
        'single (variable, value) fixes are covered by the first operation over the campaign); after every operation: the '
        'fixed variables are gone from des_vars, the restricted enumeration (COMPLETE) is compared with the filtered unfixed '
        'enumeration (rows with the variable active at that value must stay, rows with it active at another value must go, '
        'no new rows), get_n_valid_designs(with_fixed) == rows, every decode lands in the restricted set and equals what the '
        'never-fixed problem decodes for the full vector with the fixed values inserted (architecture, corrected values, '
        'activeness; compared whenever that decode has every fixed variable active at its value); after freeing '
        'everything enumeration and decodes equal the originals; fixing a connection variable / an out-of-range value must '
        'raise and leave the state unchanged; one evaluation = one operation; non-trivial = a conditionally active '
        'variable is fixed and a decode happens between fix and free; distinct by sha1(spec, encoder, history)')
BUDGET = {'quick': 250, 'thorough': 6000}


@st.composite
def _case(draw, tier):
    spec = draw(specs.full_spec(max_nodes=8 if tier == 'quick' else 10, p_conn=0.2, p_dv=0.5, p_con=0.1,
                                small_conn=True))
    ops = draw(st.lists(st.tuples(st.sampled_from(['fix', 'fix', 'fix', 'free', 'fix_bad']), ints(0, 50),
                                  ints(0, 50)), min_size=1, max_size=4))
    return {'spec': spec, 'enc': draw(st.sampled_from(['COMPLETE', 'COMPLETE', 'FAST'])), 'ops': [list(o) for o in ops],
            'vseed': draw(ints(0, 9999))}


def strategy(tier):
    return _case(tier)


def _enum(gp, meta_all):
    out = gp.get_all_discrete_x(with_fixed=True)
    if out is None:
        return None
    X, A = np.asarray(out[0]), np.asarray(out[1])
    return [(tuple(float(v) for v in X[r]), tuple(bool(a) for a in A[r])) for r in range(X.shape[0])]


def _decode_table(obs, gp, vectors):
    out = []
    for x in vectors:
        rec = decode_one(obs, gp, x)
        if rec['exc'] is not None:
            out.append(('exc', rec['exc']))
        else:
            out.append((tuple(rec['x_corr']), tuple(rec['active']), proc.rec_key(rec)))
    return out


def check_case(case):
    res = Result()
    spec, enc = case['spec'], case['enc']
    res.classes = specs.labels(spec)+['enc_'+enc]
    obs = observe(case, vectors=[])
    if obs.build_exc is not None:
        res.classes.append('construct_failed_not_judged_here')
        return res
    gp, b = obs.gp, obs.b
    all_vars = list(gp.all_des_vars)
    meta0 = obs.des_vars
    d0 = {'enc': enc}
    try:
        enum0 = _enum(gp, meta0) if enc == 'COMPLETE' else None
    except Exception:  # noqa
        enum0 = None  # C04 judges the enumeration itself
    vecs0, _ = all_vectors(meta0, 64)
    if vecs0 is None:
        vecs0 = lcg_vectors(meta0, case.get('vseed', 0), 24)
    table0 = _decode_table(obs, gp, vecs0)
    if any(t[0] == 'exc' for t in table0):
        res.classes.append('decode_fails_unfixed_not_judged_here')
        return res

    fixed = {}   # index in all_vars -> value
    n_ops = 0
    cond_fixed_with_decode = False
    ref_obs = {'o': None}

    def same_as_unfixed(x_now, rec, free_idx_, dd_):
        """Differential oracle: decoding the free part must give what the never-fixed problem gives for the full vector
        (fixed values inserted), whenever that decode keeps the fixed variables at their values (or inactive)"""
        if ref_obs['o'] is None:
            from .c05 import _fresh
            ref_obs['o'] = _fresh(spec, enc, {})
        x_full = [None]*len(all_vars)
        for k, i_ in enumerate(free_idx_):
            x_full[i_] = x_now[k]
        for i_, vv in fixed.items():
            x_full[i_] = vv
        ref = decode_one(ref_obs['o'], ref_obs['o'].gp, x_full)
        if ref['exc'] is not None:
            return
        if any((not ref['active'][i_]) or float(ref['x_corr'][i_]) != float(vv) for i_, vv in fixed.items()):
            # the unfixed problem corrects a fixed variable away from its value (not comparable), or the variable is
            # inactive there: the statement allows, but does not require, such designs to stay in the restricted problem
            return
        exp_x = [ref['x_corr'][i_] for i_ in free_idx_]
        exp_a = [ref['active'][i_] for i_ in free_idx_]
        if proc.rec_key(rec) != proc.rec_key(ref):
            res.add(viol('fixed_decode_differs_from_unfixed', f'fixed={dd_["fixed"]} x={x_now}: the never-fixed problem '
                                                              f'decodes the full vector {x_full} to another architecture',
                         data=dd_))
        elif [float(v_) for v_ in rec['x_corr']] != [float(v_) for v_ in exp_x] or list(rec['active']) != list(exp_a):
            res.add(viol('fixed_decode_differs_from_unfixed', f'fixed={dd_["fixed"]} x={x_now}: corrected '
                                                              f'{rec["x_corr"]}/{rec["active"]} but the never-fixed problem '
                                                              f'gives {exp_x}/{exp_a} for {x_full}', data=dd_))
    for op, a, v in case['ops']:
        n_ops += 1
        free_idx = [i for i in range(len(all_vars)) if i not in fixed]
        if op == 'free':
            if not fixed:
                continue
            i = sorted(fixed)[a % len(fixed)]
            gp.free_des_var(all_vars[i])
            del fixed[i]
        else:
            if not free_idx:
                continue
            i = free_idx[a % len(free_idx)]
            m = meta0[i]
            dv = all_vars[i]
            if op == 'fix_bad':
                bad = (m['n_opts']+v % 3) if m['discrete'] else m['bounds'][1]+1+v
                before = dict(gp.fixed_values)
                try:
                    gp.fix_des_var(dv, bad if v % 2 or not m['discrete'] else -1-(v % 3))
                    res.add(viol('out_of_range_fix_accepted', f'{m["name"]} fixed to out-of-range value', data=d0))
                except ValueError:
                    pass
                except RuntimeError:
                    if m['kind'] != 'conn':
                        res.add(viol('fix_wrong_exception', f'{m["name"]} RuntimeError for out-of-range', data=d0))
                except Exception as e:  # noqa
                    if exc_sig(e).endswith('@harness'):
                        raise
                    res.add(viol('fix_wrong_exception', f'{m["name"]} {type(e).__name__}: {e}',
                                 sig=f'fix_wrong_exception:{exc_sig(e)}', data=d0))
                if dict(gp.fixed_values) != before:
                    res.add(viol('state_changed_by_rejected_fix', f'{before} -> {dict(gp.fixed_values)}', data=d0))
                continue
            val = (v % m['n_opts']) if m['discrete'] else [m['bounds'][0], m['bounds'][1],
                                                           (m['bounds'][0]+m['bounds'][1])/2][v % 3]
            try:
                gp.fix_des_var(dv, val)
            except RuntimeError as e:
                if m['kind'] == 'conn':
                    res.classes.append('conn_fix_rejected')
                    if dict(gp.fixed_values) != {k: vv for k, vv in fixed.items()}:
                        res.add(viol('state_changed_by_rejected_fix', f'{fixed} -> {dict(gp.fixed_values)}', data=d0))
                    continue
                res.add(viol('fix_exception', f'{m["name"]}={val} {type(e).__name__}: {e}',
                             sig=f'fix_exception:{exc_sig(e)}', data=dict(d0, msg=str(e)[:300])))
                continue
            except Exception as e:  # noqa
                if exc_sig(e).endswith('@harness'):
                    raise
                res.add(viol('fix_exception', f'{m["name"]}={val} {type(e).__name__}: {e}',
                             sig=f'fix_exception:{exc_sig(e)}', data=dict(d0, msg=str(e)[:300])))
                continue
            if m['kind'] == 'conn':
                res.add(viol('conn_variable_fix_accepted', f'{m["name"]}', data=d0))
                gp.free_des_var(dv)
                continue
            fixed[i] = val
            if m['cond']:
                cond_fixed_with_decode = True

        # --- observe the restricted problem ---
        free_idx = [i for i in range(len(all_vars)) if i not in fixed]
        names_now = [dv.name for dv in gp.des_vars]
        if names_now != [meta0[i]['name'] for i in free_idx]:
            res.add(viol('des_vars_after_fix_wrong', f'fixed={fixed}: des_vars={names_now}', data=d0))
            break
        meta_now = [meta0[i] for i in free_idx]
        dd = dict(d0, fixed={meta0[i]['name']: vv for i, vv in fixed.items()},
                  fixed_kinds=[meta0[i]['kind'] for i in fixed], fixed_cond=[meta0[i]['cond'] for i in fixed])
        if enum0 is not None:
            try:
                enum_now = _enum(gp, meta_now)
                n_valid = gp.get_n_valid_designs(with_fixed=True)
            except Exception as e:  # noqa
                if exc_sig(e).endswith('@harness'):
                    raise
                res.add(viol('restricted_enumeration_exception', f'fixed={fixed} {type(e).__name__}: {e}',
                             sig=f'restricted_enumeration_exception:{exc_sig(e)}', data=dict(dd, msg=str(e)[:300])))
                break
            disc_fixed = [i for i in fixed if meta0[i]['discrete']]
            must, may, never = set(), set(), set()
            for x, act in enum0:
                proj = (tuple(x[i] for i in free_idx), tuple(act[i] for i in free_idx))
                st_ = 'must'
                for i in disc_fixed:
                    if act[i] and x[i] != fixed[i]:
                        st_ = 'never'
                        break
                    if not act[i]:
                        st_ = 'may' if st_ == 'must' else st_
                (must if st_ == 'must' else may if st_ == 'may' else never).add(proj)
            got = set(enum_now)
            if len(got) != len(enum_now):
                res.add(viol('restricted_rows_duplicated', f'fixed={dd["fixed"]}', data=dd))
            lost = must-got
            new = got-(must | may)
            if lost:
                res.add(viol('fix_loses_designs', f'fixed={dd["fixed"]}: {len(lost)} designs with the variable active at '
                                                  f'that value disappeared, e.g. {sorted(lost)[0]}', data=dd))
            if new:
                only_never = new & never
                res.add(viol('fix_keeps_other_value' if only_never else 'fix_invents_designs',
                             f'fixed={dd["fixed"]}: {len(new)} rows not in the filtered original, e.g. {sorted(new)[0]}',
                             data=dd))
            if n_valid != len(enum_now) and not any(not meta0[i]['discrete'] for i in free_idx):
                res.add(viol('n_valid_with_fixed_differs', f'fixed={dd["fixed"]}: count {n_valid} rows {len(enum_now)}',
                             data=dd))
            # decodes land in the restricted set
            vec_now, _ = all_vectors(meta_now, 48)
            if vec_now is None:
                vec_now = lcg_vectors(meta_now, case.get('vseed', 0)+n_ops, 16)
            disc_now = [k for k, mm in enumerate(meta_now) if mm['discrete']]
            rows_disc = {tuple(r[0][k] for k in disc_now) for r in enum_now}
            for x in vec_now:
                rec = decode_one(obs, gp, x)
                if rec['exc'] is not None:
                    if enum_now:
                        res.add(viol('decode_failed_with_fixed', f'fixed={dd["fixed"]} x={x} {rec["exc_msg"]}',
                                     sig=f'decode_failed_with_fixed:{rec["exc"]}', data=dict(dd, msg=rec['exc_msg'])))
                        break
                    continue
                if len(rec['x_corr']) != len(meta_now):
                    res.add(viol('decode_length_with_fixed', f'x={x} -> {rec["x_corr"]}', data=dd))
                    break
                if tuple(float(rec['x_corr'][k]) for k in disc_now) not in rows_disc:
                    res.add(viol('decode_outside_restricted_set', f'fixed={dd["fixed"]} x={x} -> {rec["x_corr"]}', data=dd))
                    break
                if fixed:
                    n_before = len(res.violations)
                    same_as_unfixed(x, rec, free_idx, dd)
                    if len(res.violations) > n_before:
                        break
        else:
            # FAST: decodes must respect the fixed value when the variable is active
            vec_now = lcg_vectors(meta_now, case.get('vseed', 0)+n_ops, 12) if meta_now else [[]]
            for x in vec_now:
                rec = decode_one(obs, gp, x)
                if rec['exc'] is not None:
                    res.classes.append('fast_decode_exception_with_fixed')
                    continue
                if len(rec['x_corr']) != len(meta_now):
                    res.add(viol('decode_length_with_fixed', f'x={x} -> {rec["x_corr"]}', data=dd))
                    break
                if fixed:
                    n_before = len(res.violations)
                    same_as_unfixed(x, rec, free_idx, dd)
                    if len(res.violations) > n_before:
                        break
        if len(res.violations) > 40:
            break

    # --- free everything: the original problem must be back ---
    if not res.violations:
        for i in sorted(fixed):
            gp.free_des_var(all_vars[i])
        if [dv.name for dv in gp.des_vars] != [m['name'] for m in meta0]:
            res.add(viol('des_vars_not_restored', f'{[dv.name for dv in gp.des_vars]}', data=d0))
        else:
            dd = dict(d0, history=case['ops'])
            if enum0 is not None:
                try:
                    enum1 = _enum(gp, meta0)
                    if enum1 != enum0:
                        res.add(viol('enumeration_not_restored', f'{len(enum0)} rows before, {len(enum1)} after fix/free '
                                                                 f'history {case["ops"]}', data=dd))
                except Exception as e:  # noqa
                    if exc_sig(e).endswith('@harness'):
                        raise
                    res.add(viol('restricted_enumeration_exception', f'after free: {type(e).__name__}: {e}',
                                 sig=f'restricted_enumeration_exception:{exc_sig(e)}', data=dict(dd, msg=str(e)[:300])))
            table1 = _decode_table(obs, gp, vecs0)
            if table1 != table0:
                k = [j for j in range(len(table0)) if table0[j] != table1[j]][0]
                res.add(viol('decodes_not_restored', f'after history {case["ops"]}: x={vecs0[k]} decoded '
                                                     f'{table0[k][:2]} before and {table1[k][:2]} after', data=dd))
    res.evaluations = max(1, n_ops)
    res.nontrivial = cond_fixed_with_decode
    res.sample = {'spec': spec, 'enc': enc, 'ops': case['ops'],
                  'des_vars': [(m['name'], m['kind'], m['n_opts'] or m['bounds'], m['cond']) for m in meta0]}
    return res
