"""C12 - encoder selection always succeeds and disk caches are transparent (DESIGN.md 6/C12)"""
import os
import sys
import json
import pickle
import subprocess
import tempfile
import numpy as np
from hypothesis import strategies as st
from ..strat import ints
from .. import matspec, refconn, build
from ..core import Result, viol, exc_sig, VERIF, jhash
from . import c10

ID = 'C12'
RULE = ('cases = generated G-MAT settings incl. degenerate ones (no matrix anywhere / exactly one matrix / an empty pattern) '
        'and pattern-shaped families x candidate time limit {10 s, default 0.25 s, 0.05 s} x cache history {cold, warm in '
        'the same process, warm written by a child process with another hash seed, matrix cache first touched by a '
        'per-pattern iteration} x selection variant {default, lazy_first: n_mat_max_eager=1 sends small settings down the '
        'lazy-encoders-first branch}; oracle = selection returns without '
        'exception, the returned coding passes the C10 encoder checks (validity, fixed point, onto, listing) on the '
        'declared space (sampled above 400 vectors), <= 1 matrix overall => no design variables, cold / warm / '
        'other-process results agree on the design-variable list and on the decode table (and on the encoder name under '
        'the generous limit); cache keys: for generated pairs of settings whose reference matrix maps differ the keys '
        'differ (mutations: degree, repeat flag, exclusion, parallel limit, existence pattern, and unset parallel limit '
        '<-> the value it implies); one evaluation = one selection; non-trivial = >= 2 matrices in some pattern and a warm or cross-process '
        'cache hit compared; distinct by sha1(settings, limit, history)')
BUDGET = {'quick': 16, 'thorough': 300}


@st.composite
def _case(draw, tier):
    kind = draw(ints(0, 10))
    if kind == 10:
        ms = draw(matspec.par_sensitive_spec())
    elif kind < 5:
        ms = draw(matspec.mat_spec(max_side=3, max_patterns=3))
    elif kind < 9:
        ms = draw(matspec.pattern_family_spec())
    else:
        # degenerate: exactly one or no matrix
        ms = {'src': [{'conns': [draw(ints(0, 2))], 'rep': draw(st.booleans())}],
              'tgt': [{'conns': [draw(ints(0, 2))], 'rep': draw(st.booleans())}], 'excl': [], 'par': None,
              'patterns': [{'src': {}, 'tgt': {}}]}
    mutate = draw(st.sampled_from(['deg', 'rep', 'excl', 'par', 'pattern']))
    return {'ms': ms, 'timeout': draw(st.sampled_from([10, 10, 0.25, 0.05])),
            'history': draw(st.sampled_from(['cold_warm', 'cold_warm', 'child', 'partial_first'])),
            'mutate': [mutate, draw(ints(0, 50)), draw(ints(0, 50))], 'vseed': draw(ints(0, 9999)),
            # 'lazy_first': the documented class knob n_mat_max_eager lowered to 1, which sends settings of brute-forceable
            # size down the branch that real use only takes above 1000 matrices (lazy encoders first, eager ones later)
            'variant': draw(st.sampled_from(['default', 'default', 'lazy_first']))}


def strategy(tier):
    return _case(tier)


def mutated(ms, how, a, b):
    m = json.loads(json.dumps(ms))
    side = 'src' if a % 2 else 'tgt'
    i = b % len(m[side])
    if how == 'deg':
        nd = m[side][i]
        if nd.get('conns') is not None:
            nd['conns'] = sorted(set(nd['conns']) ^ {(a % 3)}) or [1]
        else:
            nd['min'] = nd['min']+1
    elif how == 'rep':
        m[side][i]['rep'] = not m[side][i]['rep']
    elif how == 'excl':
        p = [a % len(m['src']), b % len(m['tgt'])]
        if p in m['excl']:
            m['excl'].remove(p)
        else:
            m['excl'].append(p)
    elif how == 'par':
        m['par'] = {None: 1, 1: 2, 2: 3, 3: None}.get(m.get('par'), None)
    else:
        pat = {'src': {}, 'tgt': {}}
        pat[side][str(i)] = [0]
        if pat in m['patterns']:
            m['patterns'] = [p for p in m['patterns'] if p != pat] or [{'src': {}, 'tgt': {}}]
        else:
            m['patterns'].append(pat)
    return m


def ref_map(ms):
    rs = matspec.ref_settings(ms)
    _, _, pats = matspec.to_settings(ms)
    out = []
    for pat in pats:
        r = refconn.valid_matrices(rs, pat)
        if len(r) > 400:
            raise refconn.TooLarge
        out.append((json.dumps(pat, sort_keys=True), tuple(r)))
    return pats, out


def table_of(mgr, exist_objs, vseed):
    dvs = list(mgr.design_vars)
    n_opts = [int(dv.n_opts) for dv in dvs]
    meta = [{'discrete': True, 'n_opts': n} for n in n_opts]
    from ..observe import lcg_vectors, all_vectors
    vectors, _ = all_vectors(meta, 64)
    if vectors is None:
        vectors = lcg_vectors(meta, vseed, 24)
    rows = []
    for ex in exist_objs:
        for x in vectors:
            try:
                xc, act, m = mgr.get_matrix(np.array(x, dtype=int), existence=ex)
                rows.append(([int(v) for v in xc], [bool(a) for a in act], np.asarray(m).tolist()))
            except Exception as e:  # noqa
                rows.append(('exc', type(e).__name__))
    return {'n_opts': n_opts, 'cond': [bool(dv.conditionally_active) for dv in dvs], 'rows': rows}


def child_select(path_in):
    """Child process: run the selection (writes the on-disk caches in the shared XDG_CACHE_HOME)"""
    with open(path_in) as fp:
        job = json.load(fp)
    build.ensure_path()
    from adsg_core.optimization.assign_enc.selector import EncoderSelector
    EncoderSelector.encoding_timeout = job['timeout']
    if job.get('variant') == 'lazy_first':
        EncoderSelector.n_mat_max_eager = 1
    settings, exist_objs, _ = matspec.to_settings(job['ms'])
    mgr = EncoderSelector(settings).get_best_assignment_manager()
    print(json.dumps({'encoder': str(mgr.encoder), 'table': table_of(mgr, exist_objs, job['vseed'])}))


def check_case(case):
    from adsg_core.optimization.assign_enc.selector import EncoderSelector
    from adsg_core.optimization.assign_enc.matrix import AggregateAssignmentMatrixGenerator
    res = Result()
    ms = case['ms']
    build.ensure_path()
    build.reset_globals()
    EncoderSelector.n_mat_max_eager = 1e3   # class default (a previous case may have returned early)
    timeout = case['timeout']
    res.classes = [f'timeout_{timeout}', 'history_'+case['history'], 'family_'+ms.get('family', 'random')]
    try:
        pats, refm = ref_map(ms)
    except refconn.TooLarge:
        res.excluded = True
        return res
    refs = [list(r) for _, r in refm]
    n_total = sum(len(r) for r in refs)
    res.classes.append('no_matrix' if n_total == 0 else 'one_matrix' if n_total == 1 else 'many_matrices')
    rs = matspec.ref_settings(ms)
    d0 = {'timeout': timeout, 'history': case['history'], 'n_total': n_total, 'variant': case.get('variant', 'default')}

    # --- cache keys of different settings ---
    how, a, b_ = case['mutate']
    for how_ in (how, 'par_default'):
        try:
            s1, _, _ = matspec.to_settings(ms)
            if how_ == 'par_default':
                # unset <-> explicitly the value that unset implies for the full problem (patterns re-derive the implied
                # value, an explicit value stays)
                implied = int(matspec.to_settings(dict(ms, par=None))[0].get_max_conn_parallel())
                if ms.get('par') is None:
                    ms2 = dict(json.loads(json.dumps(ms)), par=implied)
                elif ms.get('par') == implied:
                    ms2 = dict(json.loads(json.dumps(ms)), par=None)
                else:
                    continue
            else:
                ms2 = mutated(ms, how_, a, b_)
            _, refm2 = ref_map(ms2)
            s2, _, _ = matspec.to_settings(ms2)
            if refm2 != refm:
                res.classes.append(f'mutation_{how_}_changes_matrices')
                if s1.get_cache_key() == s2.get_cache_key():
                    res.add(viol('different_settings_share_cache_key', f'mutation {how_}: {json.dumps(ms)[:300]} vs '
                                                                       f'{json.dumps(ms2)[:300]}',
                                 data=dict(d0, mutation=how_)))
            if how_ != 'par_default':
                s1n, _, _ = matspec.to_settings(ms, excl_as_nodes=True)
                if s1.get_cache_key() != s1n.get_cache_key() and ms.get('excl'):
                    res.classes.append('key_depends_on_exclusion_form')
        except refconn.TooLarge:
            pass
        except Exception as e:  # noqa
            if exc_sig(e).endswith('@harness'):
                raise
            res.classes.append('mutated_settings_rejected')

    # --- selection ---
    EncoderSelector.encoding_timeout = timeout
    n_mme_default = EncoderSelector.n_mat_max_eager
    if case.get('variant') == 'lazy_first':
        EncoderSelector.n_mat_max_eager = 1
    res.classes.append('variant_'+str(case.get('variant', 'default')))
    settings, exist_objs, _ = matspec.to_settings(ms)
    sel = EncoderSelector(settings)
    sel.reset_cache()
    AggregateAssignmentMatrixGenerator(settings).reset_agg_matrix_cache()
    n_eval = 0
    child_out = None
    try:
        if case['history'] == 'partial_first' and len(exist_objs) >= 1:
            # the matrix cache is first touched by an iteration over ONE existence pattern
            g0 = AggregateAssignmentMatrixGenerator(matspec.to_settings(ms)[0])
            k = case['vseed'] % len(exist_objs)
            for _ in g0.iter_matrices(existence=matspec.to_settings(ms)[1][k]):
                pass
        if case['history'] == 'child':
            env = dict(os.environ, PYTHONHASHSEED='12345',
                       PYTHONPATH=os.pathsep.join([build.repo_path(), VERIF]))
            with tempfile.TemporaryDirectory() as tmp:
                pin = os.path.join(tmp, 'in.json')
                with open(pin, 'w') as fp:
                    json.dump({'ms': ms, 'timeout': timeout, 'vseed': case['vseed'], 'variant': case.get('variant')}, fp)
                out = subprocess.run([sys.executable, '-c', f'from vf.checks import c12; c12.child_select({pin!r})'],
                                     env=env, cwd=VERIF, capture_output=True, text=True, timeout=900)
            if out.returncode != 0:
                if 'Cannot find best encoder' in out.stderr:
                    raise RuntimeError('Cannot find best encoder, try increasing timeout (in child)')
                res.classes.append('child_failed')
                child_out = None
            else:
                child_out = json.loads(out.stdout.strip().splitlines()[-1])
        mgr_cold = sel.get_best_assignment_manager()
        n_eval += 1
        mgr_warm = EncoderSelector(matspec.to_settings(ms)[0]).get_best_assignment_manager()
        n_eval += 1
    except Exception as e:  # noqa
        if exc_sig(e).endswith('@harness'):
            raise
        EncoderSelector.encoding_timeout = 10
        EncoderSelector.n_mat_max_eager = n_mme_default
        res.add(viol('selection_failed', f'timeout={timeout} {type(e).__name__}: {e} ({n_total} matrices)',
                     sig=f'selection_failed:{exc_sig(e)}', data=dict(d0, msg=str(e)[:300])))
        res.sample = {'settings': ms, 'outcome': 'selection failed'}
        return res
    finally:
        EncoderSelector.encoding_timeout = 10
    name = str(mgr_cold.encoder)
    res.classes.append('selected_'+type(mgr_cold.encoder).__name__)
    res.classes.append('stage_'+str(getattr(sel, '_last_selection_stage', None)))
    if n_total <= 1 and len(mgr_cold.design_vars) != 0:
        res.add(viol('variables_for_single_matrix', f'{n_total} matrices but {len(mgr_cold.design_vars)} variables '
                                                    f'({name})', data=d0))
    # the returned coding must be a working coding (C10 checks, sampled)
    group = 'lazy' if 'Lazy' in type(mgr_cold).__name__ else 'eager'
    if 'Pattern' in type(mgr_cold.encoder).__name__:
        group = 'pattern'
    combo = (group, -1, -1, None, None)
    c10.check_combo(ms, rs, pats, exist_objs, refs, combo, case['vseed'], res, manager=mgr_cold, n_sample=24)
    for v in res.violations:
        v['data'] = dict(v.get('data') or {}, **d0)
    # cache transparency
    t_cold = table_of(mgr_cold, exist_objs, case['vseed'])
    t_warm = table_of(mgr_warm, exist_objs, case['vseed'])
    if t_cold != t_warm or str(mgr_warm.encoder) != name:
        res.add(viol('warm_cache_differs', f'cold {name} {t_cold["n_opts"]} vs warm {mgr_warm.encoder!s} '
                                           f'{t_warm["n_opts"]}', data=d0))
    if child_out is not None:
        jt = json.loads(json.dumps(t_cold))
        if child_out['table'] != jt:
            res.add(viol('cross_process_cache_differs', f'child wrote {child_out["encoder"]} {child_out["table"]["n_opts"]}, '
                                                        f'loaded here {name} {jt["n_opts"]}', data=d0))
        res.classes.append('cross_process_hit')
        # and a selection without any cache in this process must agree under the generous limit
        if timeout >= 10:
            EncoderSelector.encoding_timeout = timeout
            try:
                mgr_nc = EncoderSelector(matspec.to_settings(ms)[0]).get_best_assignment_manager(cache=False)
                if str(mgr_nc.encoder) != name or table_of(mgr_nc, exist_objs, case['vseed']) != t_cold:
                    res.add(viol('cached_selection_differs_from_fresh', f'cache: {name}; fresh: {mgr_nc.encoder!s}',
                                 data=d0))
            except Exception as e:  # noqa
                if exc_sig(e).endswith('@harness'):
                    raise
                res.add(viol('selection_failed', f'cache=False {type(e).__name__}: {e}',
                             sig=f'selection_failed:{exc_sig(e)}', data=dict(d0, msg=str(e)[:300])))
            finally:
                EncoderSelector.encoding_timeout = 10
    EncoderSelector.n_mat_max_eager = n_mme_default
    res.evaluations = max(1, n_eval)
    res.nontrivial = max([len(r) for r in refs]+[0]) >= 2
    res.sample = {'settings': ms, 'timeout': timeout, 'history': case['history'], 'selected': name,
                  'n_variables': len(mgr_cold.design_vars), 'reference_sizes': [len(r) for r in refs]}
    return res
