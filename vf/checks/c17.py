"""C17 - metrics are classified and evaluated according to the documented contract (DESIGN.md 6/C17)"""
import math
from hypothesis import strategies as st
from ..strat import ints
from .. import specs, refsel, build
from ..core import Result, viol, exc_sig
from ..observe import dv_meta, all_vectors, lcg_vectors

ID = 'C17'
RULE = ('cases = generated G-SEL spec with 1-4 metric nodes of every direction/reference/declared-type combination under '
        'permanent and conditional nodes x all decoded architectures x an evaluator returning complete / partial / NaN '
        'maps (drawn per metric) over exactly the requested nodes / over all metric nodes of the design space / in one dict '
        'that persists across evaluate() calls; oracle = implication table taken from the statement (objective => direction and in '
        'every reference architecture; constraint => direction and reference; NONE => unused; both possible => declared '
        'role decides, undeclared => error) and evaluation model (one value per objective/constraint, name order, '
        'evaluator value / NaN / reference value for absent constraint, metric_values mirror); one evaluation = one '
        'evaluated architecture; non-trivial = a conditional constraint metric absent in >= 1 and present in >= 1 '
        'architecture; distinct by sha1(spec, evaluator plan)')
FUZZ_MODULES = ['adsg_core.optimization.evaluator']   # thorough tier: atheris campaign over these modules (vf/fuzz.py)
FUZZ_RUNS = 3000
BUDGET = {'quick': 800, 'thorough': 20000}


@st.composite
def _case(draw, tier):
    spec = draw(specs.sel_spec(min_nodes=3, max_nodes=8, max_incompat=1, p_extra=draw(st.booleans())))
    spec = draw(specs.add_metrics(spec))
    mets = [n for n, nd in spec['nodes'].items() if nd['k'] == 'met']
    plan = {m: draw(st.sampled_from(['value', 'value', 'missing', 'nan'])) for m in mets}
    # what the user's _evaluate hands back: exactly the requested nodes, a map over ALL metric nodes of the design space
    # (also those absent from the architecture), or one dict that persists and accumulates across evaluate() calls
    return {'spec': spec, 'plan': plan, 'vseed': draw(ints(0, 999)),
            'ev_mode': draw(st.sampled_from(['requested', 'requested', 'all_nodes', 'persistent']))}


def strategy(tier):
    return _case(tier)


def _is_nan(v):
    return isinstance(v, float) and math.isnan(v)


def check_case(case):
    from adsg_core.optimization.evaluator import DSGEvaluator
    from adsg_core.optimization.hierarchy.registry import SelChoiceEncoderType
    res = Result()
    spec, plan = case['spec'], case['plan']
    res.classes = specs.labels(spec)
    model = refsel.Model(spec)
    try:
        archs = model.sel_architectures(arch_max=500)
    except refsel.TooLarge:
        res.excluded = True
        return res
    if not archs:
        res.classes.append('ref_empty')
        return res
    mets = {n: nd for n, nd in spec['nodes'].items() if nd['k'] == 'met'}
    in_all = {m for m in mets if all(m in a['nodes'] for a in archs)}
    perm_doc = model.necessary_closure(set(spec['start']))
    build.reset_globals()
    b = build.build(spec)

    values = {m: 10.0+i for i, m in enumerate(sorted(mets))}

    ev_mode = case.get('ev_mode', 'requested')
    res.classes.append('evaluator_'+ev_mode)
    persistent = {}
    all_met_nodes = [b.node[m] for m in sorted(mets)]

    class Ev(DSGEvaluator):
        def _evaluate(self, dsg, metric_nodes):
            out = persistent if ev_mode == 'persistent' else {}
            for node in (all_met_nodes if ev_mode == 'all_nodes' else metric_nodes):
                name = b.nm(node)
                p = plan.get(name, 'value')
                if p == 'value':
                    out[node] = values[name]
                elif p == 'nan':
                    out[node] = math.nan
            return out

    try:
        ev = Ev(b.dsg, encoder_type=SelChoiceEncoderType.COMPLETE)
        _ = ev.des_vars
    except Exception as e:  # noqa
        if exc_sig(e).endswith('@harness'):
            raise
        res.classes.append('construct_failed_not_judged_here')
        return res

    # --- classification ---
    ambiguous_expected = [m for m, nd in mets.items() if nd['dir'] is not None and nd['ref'] is not None
                          and m in perm_doc and nd['type'] in (None, 'OBJ_OR_CON')]
    ambiguous_possible = [m for m, nd in mets.items() if nd['dir'] is not None and nd['ref'] is not None
                          and m in in_all and nd['type'] in (None, 'OBJ_OR_CON')]
    try:
        objs = list(ev.objectives)
        cons = list(ev.constraints)
        err = None
    except RuntimeError as e:
        objs = cons = None
        err = e
    except Exception as e:  # noqa
        if exc_sig(e).endswith('@harness'):
            raise
        res.add(viol('classification_exception', f'{type(e).__name__}: {e}', sig=f'classification_exception:{exc_sig(e)}'))
        return res
    res.classes.append('ambiguous_metric' if ambiguous_expected else 'no_ambiguous_metric')
    if err is not None:
        if not ambiguous_possible:
            res.add(viol('unexpected_rejection', f'{err} although no undeclared metric can have both roles', data={}))
        res.evaluations = 1
        res.sample = {'spec_metrics': mets, 'outcome': 'rejected (ambiguous undeclared metric)'}
        res.nontrivial = False
        return res
    if ambiguous_expected:
        res.add(viol('ambiguous_metric_not_rejected', f'{ambiguous_expected} permanent with direction and reference, '
                                                      f'undeclared: expected an error', data={'metrics': ambiguous_expected}))
    obj_names = [b.nm(o.node) for o in objs]
    con_names = [b.nm(c.node) for c in cons]
    for m in obj_names:
        nd = mets[m]
        if nd['dir'] is None:
            res.add(viol('objective_without_direction', m))
        if m not in in_all:
            res.add(viol('objective_not_in_every_architecture', f'{m} missing from '
                                                                f'{[sorted(a["nodes"]) for a in archs if m not in a["nodes"]][:1]}',
                         data={'metric': m}))
        if nd['type'] == 'NONE':
            res.add(viol('none_metric_used', m))
    for m in con_names:
        nd = mets[m]
        if nd['dir'] is None or nd['ref'] is None:
            res.add(viol('constraint_without_direction_or_reference', m))
        if nd['type'] == 'NONE':
            res.add(viol('none_metric_used', m))
    if set(obj_names) & set(con_names):
        res.add(viol('metric_in_both_lists', f'{set(obj_names) & set(con_names)}'))
    if len(set(obj_names)) != len(obj_names) or len(set(con_names)) != len(con_names):
        res.add(viol('metric_listed_twice', f'{obj_names} {con_names}'))
    for m, nd in mets.items():
        if nd['type'] == 'NONE' or nd['dir'] is None:
            continue
        perm = m in perm_doc
        if perm and nd['ref'] is None and m not in obj_names:
            res.add(viol('permanent_metric_not_objective', m, data={'metric': m}))
        in_some = any(m in a['nodes'] for a in archs)
        if in_some and not (m in in_all) and nd['ref'] is not None and m not in con_names:
            res.add(viol('conditional_metric_not_constraint', m, data={'metric': m}))
        if perm and nd['ref'] is not None:
            if nd['type'] == 'OBJECTIVE' and m not in obj_names:
                res.add(viol('declared_role_ignored', f'{m} declared OBJECTIVE', data={'metric': m}))
            if nd['type'] == 'CONSTRAINT' and m not in con_names:
                res.add(viol('declared_role_ignored', f'{m} declared CONSTRAINT', data={'metric': m}))
    if obj_names != sorted(obj_names) or con_names != sorted(con_names):
        res.add(viol('unstable_order', f'objectives {obj_names} constraints {con_names} (expected name order)'))

    # --- evaluation over all decoded architectures ---
    meta = dv_meta(b, ev)
    vectors, _ = all_vectors(meta, 256)
    if vectors is None:
        vectors = lcg_vectors(meta, case.get('vseed', 0), 64)
    n_eval = 0
    absent_seen = present_seen = False
    for x in vectors:
        try:
            inst, _, _ = ev.get_graph(list(x))
        except Exception:  # noqa
            continue  # C01
        names = {b.nm(n) for n in inst.graph.nodes}
        try:
            ov, cv = ev.evaluate(inst)
            ov2, cv2 = ev.evaluate(inst)
        except Exception as e:  # noqa
            if exc_sig(e).endswith('@harness'):
                raise
            res.add(viol('evaluate_exception', f'x={x} {type(e).__name__}: {e}', sig=f'evaluate_exception:{exc_sig(e)}'))
            break
        n_eval += 1
        if len(ov) != len(objs) or len(cv) != len(cons):
            res.add(viol('wrong_number_of_outputs', f'x={x} {len(ov)}/{len(objs)} objectives {len(cv)}/{len(cons)} constraints'))
            break

        def expect(m, is_con):
            if m not in names:
                return mets[m]['ref'] if is_con else math.nan
            p = plan.get(m, 'value')
            return values[m] if p == 'value' else math.nan

        for m, got, got2 in zip(obj_names, ov, ov2):
            exp = expect(m, False)
            if not (got == exp or (_is_nan(got) and _is_nan(exp))) or not (got == got2 or (_is_nan(got) and _is_nan(got2))):
                res.add(viol('objective_value_wrong', f'x={x} {m}: got {got} (again {got2}) expected {exp}'))
        for m, got, got2 in zip(con_names, cv, cv2):
            exp = expect(m, True)
            if m not in names:
                absent_seen = True
            else:
                present_seen = present_seen or (m not in in_all)
            if not (got == exp or (_is_nan(got) and _is_nan(exp))) or not (got == got2 or (_is_nan(got) and _is_nan(got2))):
                res.add(viol('constraint_value_wrong', f'x={x} {m}: got {got} (again {got2}) expected {exp} '
                                                       f'(present={m in names})', data={'present': m in names}))
        mv = {b.nm(k): v for k, v in inst.metric_values.items()}
        for m in mets:
            if m in names:
                exp = values[m] if plan.get(m, 'value') == 'value' else math.nan
                got = mv.get(m, 'unset')
                if not (got == exp or (_is_nan(got) and _is_nan(exp))):
                    res.add(viol('metric_values_do_not_mirror', f'x={x} {m}: stored {got} expected {exp}'))
        if len(res.violations) > 40:
            break
    res.evaluations = max(1, n_eval)
    res.nontrivial = absent_seen and present_seen
    res.sample = {'metrics': mets, 'plan': plan, 'objectives': obj_names, 'constraints': con_names,
                  'n_architectures_evaluated': n_eval, 'n_reference_architectures': len(archs)}
    return res
