"""C08 - design space graphs behave as persistent values (DESIGN.md 6/C08)"""
from collections import Counter
from hypothesis import strategies as st
from ..strat import ints
from .. import specs, build
from ..core import Result, viol, exc_sig
from ..observe import dv_meta, lcg_vectors

ID = 'C08'
RULE = ('cases = generated DSG spec (G-SEL u G-CONN with grouping nodes over conditional members emphasised, design-variable '
        'and metric nodes) x a history of 3-10 derive operations over a pool of live graph objects {copy, apply a '
        'selection choice, apply a connection choice with an enumerated edge set, constrain 2-3 choices on a copy with any of '
        'the four constraint types (also unsatisfiable sizes), set a '
        'design-variable / metric value on a copy or on a derived graph, decode an instance through a processor, iterate '
        'the connection sets}; every pool member carries the snapshot taken when it was created (nodes, edge multiset, '
        'feasible, final, next choices, option lists, valid connection sets, stored design-variable and metric values) '
        'and EVERY member is re-observed after EVERY operation; one evaluation = one operation; non-trivial = pool >= 3 '
        'with a grouping node whose members differ in existence between two members, or a constraint / value set on a '
        'copy; distinct by sha1(case)')
FUZZ_MODULES = ['adsg_core.graph.adsg', 'adsg_core.graph.adsg_basic', 'adsg_core.graph.choices', 'adsg_core.graph.traversal']   # thorough tier: atheris campaign over these modules (vf/fuzz.py)
FUZZ_RUNS = 1500
BUDGET = {'quick': 200, 'thorough': 8000}
OPS = ['copy', 'apply_sel', 'apply_sel', 'apply_sel', 'apply_conn', 'apply_conn', 'constrain', 'constrain', 'set_dv', 'set_metric',
       'decode', 'decode', 'iterate']


@st.composite
def _case(draw, tier):
    spec = draw(specs.sel_spec(min_nodes=3, max_nodes=8, max_incompat=1, p_extra=draw(st.booleans())))
    if draw(ints(0, 9)) < 7:
        spec = draw(specs.add_conns(spec, max_choices=2, small=draw(st.booleans()), start_bias=0, grp_den=1))
        # emphasise grouping nodes
    if draw(st.booleans()):
        spec = draw(specs.add_dvs(spec, max_dv=2))
    if draw(ints(0, 2)) == 0:
        spec = draw(specs.add_metrics(spec, max_met=2))
    n = draw(ints(3, 7 if tier == 'quick' else 10))
    ops = [[draw(st.sampled_from(OPS)), draw(ints(0, 40)), draw(ints(0, 40)), draw(ints(0, 40))]
           for _ in range(n)]
    return {'spec': spec, 'ops': ops}


def strategy(tier):
    return _case(tier)


def fixed_cases(tier):
    """Seed independent: three permanent 2-option choices (plus a nested one); every constraint type over 2 and over 3 of
    them (PERMUTATION / UNORDERED_NOREPL over 3 are unsatisfiable: the copy is left with option-less choices), each
    followed by derive / decode operations"""
    nodes = {n: {'k': 'gen'} for n in ['r', 'a0', 'a1', 'b0', 'b1', 'c0', 'c1', 'd0', 'd1']}
    spec = {'salt': 0, 'nodes': nodes, 'edges': [],
            'choices': [{'id': 'ca', 'origin': 'r', 'opts': ['a0', 'a1']}, {'id': 'cb', 'origin': 'r', 'opts': ['b0', 'b1']},
                        {'id': 'cc', 'origin': 'r', 'opts': ['c0', 'c1']}, {'id': 'cd', 'origin': 'a0', 'opts': ['d0', 'd1']}],
            'incompat': [], 'start': ['r'], 'conns': [], 'cons': []}
    for ctype in range(4):
        for three in (0, 1):
            c = ctype+4*three
            for tail in (['copy', 0, 0, 0], ['apply_sel', 0, 0, 1], ['decode', 0, 3, 1]):
                yield {'spec': spec, 'ops': [['constrain', 0, 0, c], tail, ['constrain', 1, 0, (c+1) % 8]]}


def snapshot(b, g):
    from adsg_core.graph.adsg_nodes import SelectionChoiceNode, ConnectionChoiceNode
    snap = {}
    snap['nodes'] = tuple(sorted(b.nm(n) for n in g.graph.nodes))
    snap['edges'] = tuple(sorted(Counter((b.nm(u), b.nm(v), str(d.get('type'))) for u, v, d in g.graph.edges(data=True)).items()))
    snap['feasible'] = bool(g.feasible)
    snap['final'] = bool(g.final)
    snap['dv_values'] = tuple(sorted((b.nm(k), v) for k, v in g.des_var_values.items()))
    snap['metric_values'] = tuple(sorted((b.nm(k), v) for k, v in g.metric_values.items()))
    snap['constraints'] = len(g.get_choice_constraints())
    if snap['feasible']:
        nxt = g.get_ordered_next_choice_nodes()
        snap['next'] = tuple(b.nm(c) for c in nxt)
        opts = []
        conn_sets = []
        for c in nxt:
            if c not in g.graph.nodes:
                continue
            if isinstance(c, SelectionChoiceNode):
                opts.append((b.nm(c), tuple(b.nm(o) for o in g.get_option_nodes(c))))
            elif isinstance(c, ConnectionChoiceNode):
                try:
                    sets = sorted(tuple(sorted((b.nm(s), b.nm(t)) for s, t in e)) for e in c.iter_conn_edges(g))
                except Exception as e:  # noqa
                    sets = ('exc', type(e).__name__)
                if isinstance(sets, list) and len(sets) > 200:
                    sets = ('n', len(sets))
                conn_sets.append((b.nm(c), tuple(sets)))
        snap['options'] = tuple(opts)
        snap['conn_sets'] = tuple(conn_sets)
    return snap


def check_case(case):
    from adsg_core.graph.adsg_nodes import SelectionChoiceNode, ConnectionChoiceNode
    from adsg_core.graph.adsg import ChoiceConstraintType
    res = Result()
    spec = case['spec']
    res.classes = specs.labels(spec)
    build.reset_globals()
    try:
        b = build.build(spec)
    except Exception as e:  # noqa
        if exc_sig(e).endswith('@harness'):
            raise
        res.classes.append('construct_failed_not_judged_here')
        return res
    pool = [b.dsg]
    origin_op = ['initial']
    try:
        snaps = [snapshot(b, b.dsg)]
    except Exception as e:  # noqa
        if exc_sig(e).endswith('@harness'):
            raise
        res.classes.append('observe_failed_not_judged_here')
        return res
    gp = None
    n_ops = 0
    interesting = False
    for op, i, a, c in case['ops']:
        g = pool[i % len(pool)]
        new = None
        done = op
        try:
            if op == 'copy':
                new = g.copy()
            elif op == 'apply_sel':
                nxt = [x for x in g.get_ordered_next_choice_nodes() if isinstance(x, SelectionChoiceNode)
                       and x in g.graph.nodes] if g.feasible else []
                if nxt:
                    ch = nxt[a % len(nxt)]
                    opts = g.get_option_nodes(ch)
                    if opts:
                        new = g.get_for_apply_selection_choice(ch, opts[c % len(opts)])
            elif op == 'apply_conn':
                nxt = [x for x in g.get_ordered_next_choice_nodes() if isinstance(x, ConnectionChoiceNode)
                       and x in g.graph.nodes] if g.feasible else []
                if nxt:
                    ch = nxt[a % len(nxt)]
                    sets = []
                    for k, e in enumerate(ch.iter_conn_edges(g)):
                        sets.append(e)
                        if k > 40:
                            break
                    if sets:
                        new = g.get_for_apply_connection_choice(ch, sets[c % len(sets)])
            elif op == 'constrain':
                sel = [n for n in g.graph.nodes if isinstance(n, SelectionChoiceNode) and g.is_constrained_choice(n) is None]
                by_n = {}
                for n in sorted(sel, key=b.nm):
                    by_n.setdefault(len(g.get_option_nodes(n)), []).append(n)
                groups = [v for v in by_n.values() if len(v) >= 2]
                if groups:
                    cp = g.copy()
                    # every constraint type, over 2 or 3 choices (also unsatisfiable sizes: more choices than options
                    # for PERMUTATION / UNORDERED_NOREPL leaves choices without options on the copy)
                    ctype = [ChoiceConstraintType.LINKED, ChoiceConstraintType.PERMUTATION, ChoiceConstraintType.UNORDERED,
                             ChoiceConstraintType.UNORDERED_NOREPL][c % 4]
                    grp_ = groups[a % len(groups)]
                    new = cp.constrain_choices(ctype, grp_[:3] if (c // 4) % 2 and len(grp_) >= 3 else grp_[:2])
                    interesting = True
            elif op == 'set_dv':
                dvs = sorted(g.des_var_nodes, key=b.nm)
                if dvs:
                    cp = g.copy()
                    node = dvs[a % len(dvs)]
                    cp.set_des_var_value(node, (c % 3) if node.is_discrete else node.bounds[c % 2])
                    new = cp
                    interesting = True
            elif op == 'set_metric':
                mets = sorted(g.metric_nodes, key=b.nm)
                if mets:
                    cp = g.copy() if a % 2 else g.get_for_adjusted()
                    cp.set_metric_value(mets[a % len(mets)], float(c))
                    new = cp
                    interesting = True
            elif op == 'decode':
                if gp is None:
                    gp = build.processor(b, 'COMPLETE' if a % 3 else 'FAST')
                meta = dv_meta(b, gp)
                x = lcg_vectors(meta, a*41+c, 1)[0] if meta else []
                new, _, _ = gp.get_graph(x)
            elif op == 'iterate':
                for ch in g.get_ordered_next_choice_nodes() if g.feasible else []:
                    if isinstance(ch, ConnectionChoiceNode) and ch in g.graph.nodes:
                        list(ch.iter_conn_edges(g))
        except Exception as e:  # noqa
            if exc_sig(e).endswith('@harness'):
                raise
            res.classes.append('op_exception_not_judged_here')
            done = 'exc'
        n_ops += 1
        if new is not None:
            try:
                s_new = snapshot(b, new)
                pool.append(new)
                snaps.append(s_new)
                origin_op.append(op)
            except Exception as e:  # noqa
                if exc_sig(e).endswith('@harness'):
                    raise
                res.classes.append('observe_failed_not_judged_here')
        # re-observe every member
        for k, (member, snap) in enumerate(zip(pool, snaps)):
            try:
                now = snapshot(b, member)
            except Exception as e:  # noqa
                if exc_sig(e).endswith('@harness'):
                    raise
                res.add(viol('existing_graph_unobservable', f'member {k} ({origin_op[k]}) after {op}: {type(e).__name__}: '
                                                            f'{e}', sig=f'existing_graph_unobservable:{exc_sig(e)}',
                             data={'op': op}))
                break
            if now != snap:
                fields = [f for f in snap if snap.get(f) != now.get(f)]+[f for f in now if f not in snap]
                res.add(viol('existing_graph_changed', f'member {k} (created by {origin_op[k]}) changed in {fields} after '
                                                       f'operation {n_ops} ({op}) of {case["ops"][:n_ops]}: '
                                                       f'{ {f: (snap.get(f), now.get(f)) for f in fields[:2]} }',
                             sig='existing_graph_changed:'+'+'.join(sorted(fields)),
                             data={'op': op, 'fields': fields, 'member_origin': origin_op[k]}))
                break
        if res.violations:
            break
    res.evaluations = max(1, n_ops)
    grp = 'grouping' in res.classes
    res.nontrivial = (len(pool) >= 3 and grp) or interesting
    res.sample = {'spec': spec, 'ops': case['ops'], 'pool_size': len(pool), 'pool_origins': origin_op}
    return res
