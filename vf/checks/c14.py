"""C14 - the fast selection-choice encoder is sound and covers the design space (DESIGN.md 6/C14)"""
from hypothesis import strategies as st
from ..strat import ints
from .. import specs, refsel, proc
from ..core import Result, viol, exc_sig
from ..observe import observe, decode_one
from . import c01

ID = 'C14'
RULE = ('cases = generated DSG spec (incl. zero selection choices, forced single-option choices, incompatibilities, linked '
        'choices, small connection choices) x all vectors of the FAST encoder\'s declared space; oracle = every decode is a '
        'reference architecture (R-SEL/R-CONN), every reference architecture is the decode of some vector, a corrected '
        'vector decodes to itself, and the reachable set equals the COMPLETE encoder\'s when that one can be built; '
        'non-trivial = >= 1 vector corrected and >= 2 reference architectures; distinct by sha1(spec)')
BUDGET = {'quick': 300, 'thorough': 5000}


@st.composite
def _case(draw, tier):
    kind = draw(ints(0, 9))
    if kind == 0:
        # zero / forced choices only
        spec = draw(specs.sel_spec(min_nodes=3, max_nodes=6, max_opts=1))
    elif kind == 1:
        # branches in which a nested choice is left without options (dead ends the encoder must correct away from)
        spec = draw(specs.dead_end_spec())
    else:
        spec = draw(specs.full_spec(max_nodes=9 if tier == 'quick' else 11, p_conn=0.25, p_dv=0.2, p_con=0.25,
                                    small_conn=True))
    return {'spec': spec, 'enc': 'FAST', 'vseed': draw(ints(0, 9999))}


def strategy(tier):
    return _case(tier)


def check_case(case):
    res = Result()
    spec = case['spec']
    res.classes = specs.labels(spec)
    try:
        model, archs, ref = c01.context(case, arch_max=3000)
        full = proc.full_reference(model, spec, archs, limit=3000) if not proc.has_linked_dvs(spec) else None
    except refsel.TooLarge:
        res.excluded = True
        return res
    obs = observe(case)
    res.evaluations = max(1, len(obs.records))
    d0 = {'enc': 'FAST'}
    if obs.build_exc is not None:
        e = obs.build_exc
        if ref:
            res.add(viol('construct_failed', f'stage={obs.build_stage} {type(e).__name__}: {e} (|ref|={len(ref)})',
                         sig=f'construct_failed:{exc_sig(e)}', data=dict(d0, msg=str(e)[:300], stage=obs.build_stage)))
        return res
    meta = obs.des_vars
    seen = set()
    corrected = False
    for rec in obs.records:
        if rec['exc'] is not None:
            if ref:
                res.add(viol('decode_failed', f'x={rec["x"]} {rec["exc_msg"]}', sig=f'decode_failed:{rec["exc"]}',
                             data=dict(d0, msg=rec['exc_msg'])))
            continue
        for v in c01.membership_violations(model, ref, rec, spec):
            v['data'] = dict(v.get('data') or {}, enc='FAST')
            res.add(v)
        if not rec['feasible']:
            res.add(viol('not_feasible', f'x={rec["x"]}', data=d0))
        seen.add(proc.rec_key(rec))
        if rec['x_corr'] != rec['x']:
            corrected = True
        else:
            pass
        # a vector that is already valid (= some corrected vector) is returned unchanged
        rec2 = decode_one(obs, obs.gp, rec['x_corr'])
        if rec2['exc'] is None and rec2['x_corr'] != rec['x_corr']:
            res.add(viol('valid_vector_changed', f'x={rec["x"]} -> {rec["x_corr"]} -> {rec2["x_corr"]}', data=d0))
        if len(res.violations) > 40:
            break
    if obs.exhaustive and full is not None and not res.violations:
        missing = [k for k in full if k not in seen]
        if missing:
            k = sorted(missing, key=lambda kk: (len(kk[0]), sorted(kk[0])))[0]
            res.add(viol('architecture_unreachable', f'{len(missing)} of {len(full)} never decoded, e.g. '
                                                     f'nodes={sorted(k[0])} sel={k[1]} conn={k[2]} dv={k[3]}',
                         data=dict(d0, nodes=sorted(k[0]), sel=[list(e) for e, _ in k[1]], n_missing=len(missing))))
    # differential with the COMPLETE encoder
    if obs.exhaustive and not res.violations:
        obs_c = observe(dict(case, enc='COMPLETE'))
        if obs_c.build_exc is None and obs_c.exhaustive:
            seen_c = {proc.rec_key(r) for r in obs_c.records if r['exc'] is None}
            if seen_c != seen and not any(r['exc'] for r in obs_c.records):
                only_c = sorted(seen_c-seen, key=str)[:1]
                only_f = sorted(seen-seen_c, key=str)[:1]
                res.add(viol('reachable_set_differs_from_complete', f'only COMPLETE: {only_c} only FAST: {only_f}',
                             data=dict(d0, only_complete=len(seen_c-seen), only_fast=len(seen-seen_c))))
            res.classes.append('compared_with_complete')
            # every valid design vector (a row of the complete encoder's enumeration) is returned unchanged, with the
            # listed activeness - compared when both encoders declare the same variables
            meta_c = obs_c.des_vars
            same_vars = [(m['name'], m['n_opts'], m['bounds']) for m in meta_c] == \
                        [(m['name'], m['n_opts'], m['bounds']) for m in meta]
            if same_vars and not res.violations and all(m['discrete'] for m in meta) and not spec.get('conns'):
                # (without connection choices: which connection vector is 'the' valid one is the connection encoders' matter, C10)
                try:
                    out = obs_c.gp.get_all_discrete_x()
                except Exception:  # noqa  (C04)
                    out = None
                if out is not None:
                    import numpy as np
                    X, A = np.asarray(out[0]), np.asarray(out[1])
                    res.classes.append('valid_rows_decoded_by_fast')
                    for r in range(min(X.shape[0], 200)):
                        x = [int(v) for v in X[r]]
                        recf = decode_one(obs, obs.gp, x)
                        if recf['exc'] is not None:
                            continue
                        if [int(v) for v in recf['x_corr']] != x or list(recf['active']) != [bool(a) for a in A[r]]:
                            res.add(viol('valid_vector_changed',
                                         f'valid design vector {x} (active {[bool(a) for a in A[r]]}) is returned as '
                                         f'{recf["x_corr"]} (active {recf["active"]}) by the fast encoder',
                                         data=dict(d0, from_complete_enumeration=True)))
                            break
    res.nontrivial = corrected and len(ref) >= 2
    res.classes.append('ref_empty' if not ref else 'ref_nonempty')
    res.sample = {'spec': spec, 'n_vectors': len(obs.records), 'n_ref_arch': len(ref),
                  'des_vars': [(m['name'], m['n_opts'] or m['bounds']) for m in meta]}
    res.n_ref = len(ref)
    return res


target = c01.target
