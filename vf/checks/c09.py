"""C09 - connection-set enumeration is exact (DESIGN.md 6/C09)"""
from collections import Counter
import numpy as np
from hypothesis import strategies as st
from .. import matspec, refconn, build
from ..core import Result, viol, exc_sig

ID = 'C09'
RULE = ('exhaustive core: every assignment of an 18-letter connector alphabet ({0,1,2,(0,1),(1,2),(0,2),0..*,1..*,2..*} x '
        'repeated flag) to 1x1, 1x2, 2x1 (all) and 2x2 (all in thorough, every 16th in quick) shapes with all existence '
        'patterns; random: G-MAT settings up to 3x3 with exclusions, explicit parallel limits and override patterns; '
        'oracle = R-CONN brute force: enumerated set == reference set without duplicates, validate_matrix == membership '
        'over the limit box (+1), counts == sizes, iter_matrices == same multiset, a cold on-disk cache first touched by a per-pattern iteration gives the same full enumeration afterwards, and (warm-versus-cold) sequences of 2-6 settings processed in one process without clearing the module-level LRU caches each still equal their reference; non-trivial = some pattern has >= 2 '
        'valid matrices and some box matrix is rejected; distinct by sha1(settings)')
# (no atheris campaign: instrumenting matrix.py breaks its numba-jitted functions - TypingError on the inserted
# _trace_branch calls - see DESIGN.md 10.5)
BUDGET = {'quick': 400, 'thorough': 8000}
EXHAUSTIVE = {'quick': False, 'thorough': False}  # the core is exhaustive, the random part is not
BOX_MAX = 3000


def strategy(tier):
    return st.fixed_dictionaries({'ms': matspec.mat_spec(max_side=3)})


def fixed_cases(tier):
    for ms in matspec.exhaustive_cases(tier):
        yield {'ms': ms}


def check_case(case):
    if 'seq' in case:
        # warm-versus-cold: several settings processed in ONE process without clearing the module-level LRU caches (which
        # hand out shared numpy arrays); every one must still equal its (cold) reference
        build.ensure_path()
        build.reset_globals()
        total = Result()
        total.classes = ['warm_sequence']
        for i, ms in enumerate(case['seq']):
            r = _check_one({'ms': ms, 'warm': True})
            total.evaluations += r.evaluations
            total.nontrivial = total.nontrivial or (r.nontrivial and i > 0)
            for v in r.violations:
                v['detail'] = f'[setting {i+1} of a warm sequence of {len(case["seq"])}] '+v['detail']
                v['data'] = dict(v.get('data') or {}, warm_position=i)
                total.add(v)
            if r.excluded:
                total.excluded = True
        total.sample = {'sequence_of_settings': [{k: m[k] for k in ('src', 'tgt', 'excl', 'par')} for m in case['seq']]}
        return total
    return _check_one(case)


def _check_one(case):
    from adsg_core.optimization.assign_enc.matrix import AggregateAssignmentMatrixGenerator
    res = Result()
    ms = case['ms']
    build.ensure_path()
    if not case.get('warm'):
        build.reset_globals()
    n_src, n_tgt = len(ms['src']), len(ms['tgt'])
    res.classes = [f'{n_src}x{n_tgt}']
    if ms.get('excl'):
        res.classes.append('exclusion')
    if ms.get('par') is not None:
        res.classes.append('explicit_parallel')
    rs = matspec.ref_settings(ms)

    try:
        settings, exist_objs, pats = matspec.to_settings(ms)
        gen = AggregateAssignmentMatrixGenerator(settings)
        gen.reset_agg_matrix_cache()
        n_sum = gen.count_all_matrices(max_by_existence=False)
        n_max = gen.count_all_matrices(max_by_existence=True)
        agg = gen.get_agg_matrix(cache=False)
    except Exception as e:  # noqa
        if exc_sig(e).endswith('@harness'):
            raise
        res.add(viol('generator_exception', f'{type(e).__name__}: {e}', sig=f'generator_exception:{exc_sig(e)}',
                     data={'msg': str(e)[:300]}))
        return res

    sizes = []
    multi = rejected = False
    for pat, ex in zip(pats, exist_objs):
        is_override = any(v != [0] for side in ('src', 'tgt') for v in pat.get(side, {}).values())
        if is_override:
            res.classes.append('override_pattern')
        try:
            ref = refconn.valid_matrices(rs, pat)
        except refconn.TooLarge:
            res.excluded = True
            return res
        ref_set = set(ref)
        sizes.append(len(ref))
        res.classes.append('pattern_nonempty' if ref else 'pattern_empty')
        if len(ref) >= 2:
            multi = True
        got = agg.get(ex)
        if got is None:
            res.add(viol('pattern_missing_in_agg_matrix', f'pattern={pat}', data={'pattern': pat}))
            continue
        got_list = [tuple(tuple(int(v) for v in row) for row in m) for m in got]
        if got.shape[0] == 0:
            got_list = []
        cnt = Counter(got_list)
        dup = [m for m, n in cnt.items() if n > 1]
        if dup:
            res.add(viol('duplicate_matrix', f'pattern={pat} dup={dup[:2]}', data={'pattern': pat, 'override': is_override}))
        if set(got_list) != ref_set:
            extra = sorted(set(got_list)-ref_set)[:2]
            missing = sorted(ref_set-set(got_list))[:2]
            kind = 'enumerated_invalid_matrix' if extra else 'enumeration_misses_matrix'
            res.add(viol(kind, f'pattern={pat} extra={extra} missing={missing} n_got={len(cnt)} n_ref={len(ref_set)}',
                         data={'pattern': pat, 'override': is_override, 'extra': extra, 'missing': missing}))
        # validity predicate over the box
        try:
            pre = refconn.limit_matrix(rs, pat)
            for m in refconn.box_matrices(rs, pat, extra=1, box_max=BOX_MAX):
                exp = m in ref_set
                if not exp:
                    rejected = True
                val = bool(gen.validate_matrix(np.array(m, dtype=int).reshape(n_src, n_tgt), existence=ex))
                if val != exp:
                    res.add(viol('validate_accepts_invalid' if val else 'validate_rejects_valid',
                                 f'pattern={pat} matrix={m}', data={'pattern': pat, 'override': is_override,
                                                                    'matrix': m}))
                    break
        except refconn.TooLarge:
            res.classes.append('box_skipped')
        # iteration
        try:
            it = Counter(tuple(tuple(int(v) for v in row) for row in m) for m, _ in gen.iter_matrices(existence=ex))
            if it != cnt:
                res.add(viol('iter_matrices_differs', f'pattern={pat} n_iter={sum(it.values())} n_agg={len(got_list)}',
                             data={'pattern': pat, 'override': is_override}))
        except Exception as e:  # noqa
            if exc_sig(e).endswith('@harness'):
                raise
            res.add(viol('generator_exception', f'iter_matrices {type(e).__name__}: {e}',
                         sig=f'generator_exception:{exc_sig(e)}', data={'msg': str(e)[:300]}))
        if len(res.violations) > 40:
            break
    # cache history: a cold cache first touched by a per-pattern iteration must not poison later full enumerations
    if not res.violations and len(pats) >= 2 and not res.excluded:
        try:
            k = (len(ms['src'])*7+len(ms['tgt'])*3+len(pats)) % len(pats)
            s2, ex2, _ = matspec.to_settings(ms)
            gen2 = AggregateAssignmentMatrixGenerator(s2)
            gen2.reset_agg_matrix_cache()
            part = [m for m, _ in gen2.iter_matrices(existence=ex2[k])]
            s3, ex3, _ = matspec.to_settings(ms)
            gen3 = AggregateAssignmentMatrixGenerator(s3)
            agg3 = gen3.get_agg_matrix(cache=True)
            n3 = gen3.count_all_matrices(max_by_existence=False)
            for pat, ex, n_ref in zip(pats, ex3, sizes):
                got3 = agg3.get(ex)
                if got3 is None or got3.shape[0] != n_ref:
                    res.add(viol('cache_poisoned_by_partial_enumeration',
                                 f'after iter_matrices(existence=pattern {k}) on a cold cache, get_agg_matrix(cache=True) '
                                 f'lists {None if got3 is None else got3.shape[0]} matrices for pattern {pat} '
                                 f'(reference {n_ref})', data={'pattern': pat}))
                    break
            if not res.violations and n3 != sum(sizes):
                res.add(viol('cache_poisoned_by_partial_enumeration', f'count after partial enumeration {n3} != '
                                                                      f'{sum(sizes)}', data={}))
            gen3.reset_agg_matrix_cache()
            res.classes.append('partial_first_history')
        except Exception as e:  # noqa
            if exc_sig(e).endswith('@harness'):
                raise
            res.add(viol('generator_exception', f'partial-first history {type(e).__name__}: {e}',
                         sig=f'generator_exception:{exc_sig(e)}', data={'msg': str(e)[:300]}))
    if not res.violations:
        if n_sum != sum(sizes):
            res.add(viol('count_sum_differs', f'count={n_sum} reference={sum(sizes)} sizes={sizes}',
                         data={'sizes': sizes}))
        if n_max != (max(sizes) if sizes else 0):
            res.add(viol('count_max_differs', f'count={n_max} reference={max(sizes)}', data={'sizes': sizes}))
    res.evaluations = len(pats)
    res.nontrivial = multi and rejected
    res.classes = sorted(set(res.classes))
    res.sample = {'settings': {k: ms[k] for k in ('src', 'tgt', 'excl', 'par')}, 'n_patterns': len(pats),
                  'reference_sizes': sizes}
    return res


def extra_campaigns(tier):
    n = 40 if tier == 'quick' else 800
    seq = st.fixed_dictionaries({'seq': st.lists(matspec.mat_spec(max_side=3, max_patterns=3), min_size=2, max_size=6)})
    return [('warm_sequences', seq, n)]
