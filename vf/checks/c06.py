"""C06 - incompatibility constraints are enforced and never over-prune (DESIGN.md 6/C06)"""
from hypothesis import strategies as st
from .. import specs, refsel
from ..core import viol
from . import c02

ID = 'C06'
RULE = ('cases = generated G-SEL spec with 1-3 incompatibility pairs (on start, option, derived, shared nodes) x all '
        'orders of taking active choices (decision-set DAG); oracle = no feasible final contains an incompatible pair, '
        'feasible finals = R-SEL set (nothing admissible lost, nothing inadmissible kept), initial graph infeasible only if '
        'R-SEL is empty; non-trivial = at least one assignment is rejected by an incompatibility and at least one is '
        'admissible; distinct by sha1(spec)')
FUZZ_MODULES = ['adsg_core.graph.traversal', 'adsg_core.graph.choices', 'adsg_core.graph.incompatibility', 'adsg_core.graph.influence_matrix']   # thorough tier: atheris campaign over these modules (vf/fuzz.py)
FUZZ_RUNS = 4000
BUDGET = {'quick': 600, 'thorough': 10000}


@st.composite
def _spec(draw, tier):
    spec = draw(specs.sel_spec(max_nodes=10 if tier == 'quick' else 12, max_incompat=3, dag_rich=draw(st.booleans())))
    if not spec['incompat']:
        names = list(spec['nodes'])
        u = draw(st.sampled_from(names))
        v = draw(st.sampled_from(names))
        if u != v:
            spec['incompat'].append([u, v])
    return spec


def strategy(tier):
    return st.fixed_dictionaries({'spec': st.one_of(_spec(tier), specs.layered_spec())})


def check_case(case, tier='quick'):
    res = c02.check_case(case, tier=tier, prop=ID)
    spec = case['spec']
    w = getattr(res, 'walk', None)
    if w is None or res.excluded:
        return res
    pairs = [tuple(p) for p in spec.get('incompat', [])]
    for leaf in w.leaves:
        if not leaf['feasible']:
            continue
        k = leaf['ident'][0]
        inside = [p for p in pairs if p[0] in k and p[1] in k]
        if inside:
            res.add(viol('feasible_with_incompatible_pair', f'pairs={inside} nodes={sorted(k)} '
                                                            f'decisions={leaf["decisions"]}',
                         data={'nodes': sorted(k), 'pairs': inside}))
    model = refsel.Model(spec)
    try:
        _, infeasible = model.sel_architectures(arch_max=5000, with_infeasible=True)
    except refsel.TooLarge:
        return res
    # Statistic only (stronger reading of 'never offered'): options whose necessary closure conflicts
    n_conflicting_offers = 0
    for dec, cid, opts, conf in w.offered:
        for o in opts:
            n = model.necessary_closure(set(conf) | {o})
            if any(a in n and b_ in n for a, b_ in pairs):
                n_conflicting_offers += 1
    if n_conflicting_offers:
        res.classes.append('offered_self_conflicting_option')
    res.nontrivial = len(infeasible) >= 1 and len(getattr(res, 'ref', {})) >= 1
    res.classes.append('some_rejected' if infeasible else 'none_rejected')
    if res.sample:
        res.sample['n_rejected_assignments'] = len(infeasible)
    return res


target = c02.target
