"""C06 - incompatibility constraints are enforced and never over-prune (DESIGN.md 6/C06)"""
from hypothesis import strategies as st
from .. import specs, refsel
from ..core import viol
from . import c02

ID = 'C06'
RULE = ('cases = generated G-SEL spec with 1-3 incompatibility pairs (on start, option, derived, shared nodes) x all '
        'orders of taking active choices (decision-set DAG); oracle = no feasible final contains an incompatible pair, '
        'feasible finals = R-SEL set (nothing admissible lost, nothing inadmissible kept), initial graph infeasible only if '
        'R-SEL is empty; choices are also taken on infeasible intermediate graphs (<= 600 states): no end state reached '
        'through an infeasible state may be reported feasible; non-trivial = at least one assignment is rejected by an incompatibility and at least one is '
        'admissible; distinct by sha1(spec)')
FUZZ_MODULES = ['adsg_core.graph.traversal', 'adsg_core.graph.choices', 'adsg_core.graph.incompatibility', 'adsg_core.graph.influence_matrix']   # thorough tier: atheris campaign over these modules (vf/fuzz.py)
FUZZ_RUNS = 4000
BUDGET = {'quick': 600, 'thorough': 10000}


@st.composite
def _spec(draw, tier):
    spec = draw(specs.sel_spec(max_nodes=10 if tier == 'quick' else 12, max_incompat=3, dag_rich=draw(st.booleans())))
    if not spec['incompat']:
        names = list(spec['nodes'])
        u = draw(st.sampled_from(names))
        v = draw(st.sampled_from(names))
        if u != v:
            spec['incompat'].append([u, v])
    return spec


def strategy(tier):
    return st.fixed_dictionaries({'spec': st.one_of(_spec(tier), _spec(tier), specs.layered_spec(),
                                                    specs.necessary_conflict_spec())})


def check_case(case, tier='quick'):
    res = c02.check_case(case, tier=tier, prop=ID)
    spec = case['spec']
    w = getattr(res, 'walk', None)
    if w is None or res.excluded:
        return res
    pairs = [tuple(p) for p in spec.get('incompat', [])]
    for leaf in w.leaves:
        if not leaf['feasible']:
            continue
        k = leaf['ident'][0]
        inside = [p for p in pairs if p[0] in k and p[1] in k]
        if inside:
            res.add(viol('feasible_with_incompatible_pair', f'pairs={inside} nodes={sorted(k)} '
                                                            f'decisions={leaf["decisions"]}',
                         data={'nodes': sorted(k), 'pairs': inside}))
    # Once infeasible, always infeasible: continue taking choices on infeasible intermediate graphs (a caller who looks at
    # feasibility only at the end) - whatever is reported feasible at the end must still be an admissible architecture
    if w.infeasible_states > 0 and not res.violations:
        from .. import dsgwalk
        w2 = dsgwalk.walk(spec, max_states=600, expand_infeasible=True)
        if w2.build_exc is None and not w2.truncated:
            ref = getattr(res, 'ref', {})
            res.classes.append('expanded_infeasible_intermediates')
            n_via = 0
            for leaf in w2.leaves:
                dec = frozenset(tuple(d) for d in leaf['decisions'])
                via = [d for d in w2.infeasible_decisions if d <= dec and d != dec]
                if not via:
                    continue
                n_via += 1
                if leaf['feasible']:
                    k = leaf['ident']
                    inside = [p for p in pairs if p[0] in k[0] and p[1] in k[0]]
                    res.add(viol('feasible_after_infeasible_intermediate',
                                 f'decisions={leaf["decisions"]} passed the infeasible state {sorted(via[0])} and ends '
                                 f'reported feasible (final={leaf["final"]}) nodes={sorted(k[0])} admissible={k in ref} '
                                 f'incompatible_pairs_inside={inside}',
                                 data={'nodes': sorted(k[0]), 'sel': [list(e) for e, _ in k[1]]}))
                    break
            # the same decisions reached in another order with another verdict (the first visit is the leaf above)
            for dec_l, a, b_ in w2.order_conflicts:
                dec = frozenset(tuple(d) for d in dec_l)
                via = [d for d in w2.infeasible_decisions if d <= dec]
                if via and (a[2] != b_[2]) and not res.violations:
                    res.add(viol('feasible_after_infeasible_intermediate',
                                 f'decisions={dec_l}: reported {"feasible" if a[2] else "infeasible"} in one order and '
                                 f'{"feasible" if b_[2] else "infeasible"} in another (infeasible state on the way: '
                                 f'{sorted(via[0])}); nodes {sorted(a[0])} vs {sorted(b_[0])}',
                                 data={'nodes': sorted(b_[0] if b_[2] else a[0])}))
            # ... and the same order taken on a freshly built graph (no sibling graphs derived before, cold caches)
            n_replayed = 0
            for leaf in w2.leaves:
                if n_replayed >= 8 or res.violations:
                    break
                dec = frozenset(tuple(d) for d in leaf['decisions'])
                for d_inf, p_inf in zip(w2.infeasible_decisions, w2.infeasible_paths):
                    if not (d_inf <= dec and d_inf != dec) or n_replayed >= 8 or res.violations:
                        continue
                    # the decisions that make the graph infeasible first, then the remaining ones in the leaf's order
                    order = [tuple(p_) for p_ in p_inf]+[tuple(p_) for p_ in leaf['path'] if tuple(p_) not in d_inf]
                    n_replayed += 1
                    try:
                        out = dsgwalk.replay_fresh(spec, order)
                    except Exception:  # noqa  (queries on infeasible graphs may fail: not judged)
                        out = None
                    if out is not None and out[0]:
                        res.add(viol('feasible_after_infeasible_intermediate',
                                     f'decisions taken in the order {order} on a fresh graph pass the infeasible state '
                                     f'{sorted(d_inf)} and end reported feasible (final={out[1]}) nodes={sorted(out[2][0])} '
                                     f'admissible={out[2] in ref}', data={'nodes': sorted(out[2][0])}))
            res.evaluations += w2.states+n_replayed
            if n_via:
                res.classes.append('ends_reached_through_infeasible_state')
    model = refsel.Model(spec)
    try:
        _, infeasible = model.sel_architectures(arch_max=5000, with_infeasible=True)
    except refsel.TooLarge:
        return res
    # Statistic only (stronger reading of 'never offered'): options whose necessary closure conflicts
    n_conflicting_offers = 0
    for dec, cid, opts, conf in w.offered:
        for o in opts:
            n = model.necessary_closure(set(conf) | {o})
            if any(a in n and b_ in n for a, b_ in pairs):
                n_conflicting_offers += 1
    if n_conflicting_offers:
        res.classes.append('offered_self_conflicting_option')
    res.nontrivial = len(infeasible) >= 1 and len(getattr(res, 'ref', {})) >= 1
    res.classes.append('some_rejected' if infeasible else 'none_rejected')
    if res.sample:
        res.sample['n_rejected_assignments'] = len(infeasible)
    return res


target = c02.target
