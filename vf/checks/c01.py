"""C01 - every design vector decodes to a valid architecture instance (DESIGN.md 6/C01)"""
from hypothesis import strategies as st
from ..strat import ints
from .. import specs, refsel, identity
from ..core import Result, viol, exc_sig
from ..observe import observe

ID = 'C01'
RULE = ('cases = generated DSG spec (G-SEL u G-CON u G-CONN u G-DV) x encoder {COMPLETE, FAST} x every vector of the '
        'declared space (<=512, else corners + 192 pseudo-random); oracle = R-SEL/R-CONN membership; non-trivial = '
        'reference has >= 2 architectures and at least one vector is corrected or has an inactive variable; distinct by '
        'sha1(spec, encoder)')
BUDGET = {'quick': 150, 'thorough': 5000}
EXPLICIT = ('ValueError', 'RuntimeError')


def strategy(tier):
    return st.fixed_dictionaries({
        'spec': st.one_of(specs.full_spec(max_nodes=9 if tier == 'quick' else 12),
                          specs.full_spec(max_nodes=9 if tier == 'quick' else 12),
                          specs.full_spec(max_nodes=9 if tier == 'quick' else 12), specs.two_conn_spec(),
                          specs.conn_dv_spec(), specs.dead_end_spec(), specs.excl_pattern_spec()),
        'enc': st.sampled_from(['COMPLETE', 'FAST']),
        'vseed': ints(0, 2**32),
    })


def context(case, arch_max=5000):
    spec = case['spec']
    model = refsel.Model(spec)
    archs = model.feasible_archs(arch_max=arch_max)
    ref = {model.sel_ident(a): a for a in archs}
    return model, archs, ref


def membership_violations(model, ref, rec, spec):
    out = []
    idn = rec['ident']
    key = (idn[0], idn[1])
    if key not in ref:
        out.append(viol('not_an_architecture', f'x={rec["x"]} nodes={sorted(idn[0])} sel={idn[1]}',
                        data={'nodes': sorted(idn[0]), 'sel': [list(e) for e, _ in idn[1]]}))
        return out
    k = idn[0]
    n_conn = 0
    for cc in spec.get('conns', []):
        edges = identity.conn_edges_of(idn, model, cc)
        n_conn += len(edges)
        sets = model.conn_sets(cc, k)
        if sets is None or edges not in sets:
            out.append(viol('invalid_connection_set', f'x={rec["x"]} cc={cc["id"]} edges={edges} valid={sets}'))
    if n_conn != sum(n for _, n in idn[2]):
        out.append(viol('stray_connection_edges', f'x={rec["x"]} conn={idn[2]}'))
    for name, val in idn[3]:
        n_opts = spec['nodes'][name]['opts']
        if val is None or not (0 <= val < n_opts):
            out.append(viol('dv_value_out_of_domain', f'x={rec["x"]} {name}={val}'))
    return out


def check_case(case):
    res = Result()
    spec = case['spec']
    res.classes = specs.labels(spec)+['enc_'+case['enc']]
    try:
        model, archs, ref = context(case)
    except refsel.TooLarge:
        res.excluded = True
        return res
    obs = observe(case)
    res.evaluations = max(1, len(obs.records))
    if obs.build_exc is not None:
        e = obs.build_exc
        if ref:
            res.add(viol('construct_failed', f'stage={obs.build_stage} {type(e).__name__}: {e} (|ref|={len(ref)})',
                         sig=f'construct_failed:{exc_sig(e)}', data={'msg': str(e)[:300], 'stage': obs.build_stage}))
        elif type(e).__name__ not in EXPLICIT:
            res.add(viol('crash_on_infeasible', f'stage={obs.build_stage} {type(e).__name__}: {e}',
                         sig=f'crash_on_infeasible:{exc_sig(e)}'))
        res.classes.append('ref_empty' if not ref else 'ref_nonempty')
        return res

    corrected = False
    for rec in obs.records:
        if rec['exc'] is not None:
            if ref:
                res.add(viol('decode_failed', f'x={rec["x"]} {rec["exc_msg"]}', sig=f'decode_failed:{rec["exc"]}',
                             data={'msg': rec['exc_msg']}))
            elif rec['exc'].split('@')[0] not in EXPLICIT:
                res.add(viol('crash_on_infeasible', f'x={rec["x"]} {rec["exc_msg"]}',
                             sig=f'crash_on_infeasible:{rec["exc"]}'))
            continue
        if ref and not rec['final']:
            res.add(viol('not_final', f'x={rec["x"]}'))
        if ref and not rec['feasible']:
            res.add(viol('not_feasible', f'x={rec["x"]}'))
        if not ref:
            continue   # hypothesis 'feasible design space graph' does not hold: only explicit failure is required
        for v in membership_violations(model, ref, rec, spec):
            res.add(v)
        if rec['x_corr'] != rec['x'] or not all(rec['active']):
            corrected = True
        if len(res.violations) > 40:
            break
    res.nontrivial = len(ref) >= 2 and corrected
    res.classes.append('ref_empty' if not ref else 'ref_nonempty')
    if obs.exhaustive:
        res.classes.append('vectors_exhaustive')
    res.sample = {'spec': spec, 'enc': case['enc'], 'n_ref_arch': len(ref), 'n_vectors': len(obs.records),
                  'des_vars': [(m['name'], m['n_opts'] or m['bounds']) for m in obs.des_vars]}
    res.n_ref = len(ref)
    return res


def target(case, res):
    return min(getattr(res, 'n_ref', 0), 30)
