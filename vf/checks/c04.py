"""C04 - the enumerated valid design vectors are exactly the architectures, one each (DESIGN.md 6/C04)"""
import numpy as np
from hypothesis import strategies as st
from ..strat import ints
from .. import specs, refsel, proc
from ..core import Result, viol, exc_sig
from ..observe import observe, decode_one
from . import c01

ID = 'C04'
RULE = ('cases = generated DSG spec small enough for full reference enumeration (<= 3000 full architectures), COMPLETE '
        'encoder; oracle = get_all_discrete_x rows decode to themselves with the listed activeness, are pairwise distinct, '
        'their architectures equal the reference full set (R-SEL x R-CONN x discrete DV values) exactly once each; '
        'get_n_valid_designs == rows, get_n_design_space == product of option counts, imputation ratio == quotient; '
        'non-trivial = reference >= 3 architectures and >= 1 conditionally active variable; distinct by sha1(spec)')
BUDGET = {'quick': 200, 'thorough': 4000}


@st.composite
def _case(draw, tier):
    k = draw(ints(0, 5))
    if k == 0:
        return {'spec': draw(specs.conn_dv_spec()), 'enc': 'COMPLETE', 'vseed': 0}
    if k == 1:
        # two connection choices that are active together (rows differing only in the first choice's vector)
        return {'spec': draw(specs.two_conn_spec(start_bias=draw(st.sampled_from([0, 3, 6])))), 'enc': 'COMPLETE',
                'vseed': 0}
    spec = draw(specs.sel_spec(max_nodes=9 if tier == 'quick' else 11))
    r = draw(ints(0, 99))
    if r < 20:
        spec = draw(specs.add_constraint(spec))
    r = draw(ints(0, 99))
    if r < 35:
        spec = draw(specs.add_conns(spec, max_choices=1 if draw(ints(0, 3)) else 2, small=draw(st.booleans())))
    r = draw(ints(0, 99))
    if r < 40:
        spec = draw(specs.add_dvs(spec))
    return {'spec': spec, 'enc': 'COMPLETE', 'vseed': 0}


def strategy(tier):
    return _case(tier)


def check_case(case):
    res = Result()
    spec = case['spec']
    res.classes = specs.labels(spec)
    model = refsel.Model(spec)
    try:
        archs = model.feasible_archs(arch_max=2000)
        full = proc.full_reference(model, spec, archs, limit=3000)
    except refsel.TooLarge:
        full = None
    if full is None:
        res.excluded = True
        return res
    obs = observe(case, vectors=[])
    if obs.build_exc is not None:
        res.classes.append('construct_failed_not_judged_here')
        return res
    gp, meta = obs.gp, obs.des_vars
    d0 = {'enc': 'COMPLETE'}
    try:
        out = gp.get_all_discrete_x()
    except Exception as e:  # noqa
        if exc_sig(e).endswith('@harness'):
            raise
        res.add(viol('enumerate_exception', f'{type(e).__name__}: {e}', sig=f'enumerate_exception:{exc_sig(e)}',
                     data=dict(d0, msg=str(e)[:300])))
        return res
    if out is None:
        res.add(viol('enumeration_unavailable', 'get_all_discrete_x returned None with the COMPLETE encoder', data=d0))
        return res
    X, A = out
    X = np.asarray(X)
    A = np.asarray(A)
    res.evaluations = max(1, X.shape[0])
    disc = [i for i, m in enumerate(meta) if m['discrete']]
    rows = [tuple(int(X[r, i]) for i in disc) for r in range(X.shape[0])]
    if len(set(rows)) != len(rows):
        dup = [r for r in set(rows) if rows.count(r) > 1][:2]
        res.add(viol('duplicate_rows', f'{dup}', data=d0))
    seen = {}
    for r in range(X.shape[0]):
        x = [float(X[r, i]) if not meta[i]['discrete'] else int(X[r, i]) for i in range(len(meta))]
        rec = decode_one(obs, gp, x)
        if rec['exc'] is not None:
            res.add(viol('row_decode_failed', f'row={x} {rec["exc_msg"]}', sig=f'row_decode_failed:{rec["exc"]}',
                         data=dict(d0, msg=rec['exc_msg'])))
            break
        if [rec['x_corr'][i] for i in disc] != [x[i] for i in disc]:
            res.add(viol('row_not_a_fixed_point', f'row={x} decodes to {rec["x_corr"]}', data=d0))
            break
        if [bool(a) for a in A[r]] != rec['active']:
            diff = sorted({meta[i]['kind'] for i in range(len(meta)) if bool(A[r][i]) != rec['active'][i]})
            res.add(viol('row_activeness_differs', f'row={x} listed={[bool(a) for a in A[r]]} decoded={rec["active"]}',
                         data=dict(d0, diff_kinds=diff)))
            break
        key = proc.rec_key(rec)
        if key in seen:
            res.add(viol('two_rows_same_architecture', f'rows {seen[key]} and {x} -> nodes={sorted(key[0])} sel={key[1]} '
                                                       f'conn={key[2]} dv={key[3]}',
                         data=dict(d0, nodes=sorted(key[0]), sel=[list(e) for e, _ in key[1]])))
            break
        seen[key] = x
        if key not in full:
            res.add(viol('row_not_an_architecture', f'row={x} nodes={sorted(key[0])} sel={key[1]} conn={key[2]}',
                         data=dict(d0, nodes=sorted(key[0]), sel=[list(e) for e, _ in key[1]])))
            break
    if not res.violations:
        missing = [k for k in full if k not in seen]
        if missing:
            k = sorted(missing, key=lambda kk: (len(kk[0]), sorted(kk[0])))[0]
            res.add(viol('architecture_not_enumerated', f'{len(missing)} of {len(full)} missing, e.g. nodes={sorted(k[0])} '
                                                        f'sel={k[1]} conn={k[2]} dv={k[3]}',
                         data=dict(d0, nodes=sorted(k[0]), sel=[list(e) for e, _ in k[1]], n_missing=len(missing))))
    if not res.violations:
        try:
            n_valid = gp.get_n_valid_designs()
            n_space = gp.get_n_design_space()
            ratio = gp.get_imputation_ratio(include_cont=False)
            n_decl = 1
            for i in disc:
                n_decl *= meta[i]['n_opts']
            if n_valid != X.shape[0]:
                res.add(viol('n_valid_designs_differs', f'get_n_valid_designs={n_valid} rows={X.shape[0]}', data=d0))
            if n_space != n_decl:
                res.add(viol('n_design_space_differs', f'get_n_design_space={n_space} product={n_decl}', data=d0))
            if X.shape[0] > 0 and abs(ratio-n_decl/X.shape[0]) > 1e-9*max(1.0, ratio):
                res.add(viol('imputation_ratio_differs', f'ratio={ratio} expected={n_decl/X.shape[0]}', data=d0))
        except Exception as e:  # noqa
            if exc_sig(e).endswith('@harness'):
                raise
            res.add(viol('statistics_exception', f'{type(e).__name__}: {e}', sig=f'statistics_exception:{exc_sig(e)}',
                         data=dict(d0, msg=str(e)[:300])))
    res.nontrivial = len(full) >= 3 and any(m['cond'] for m in meta)
    res.sample = {'spec': spec, 'n_reference_architectures': len(full), 'n_rows': int(X.shape[0]),
                  'des_vars': [(m['name'], m['n_opts'] or m['bounds'], m['cond']) for m in meta]}
    res.n_ref = len(full)
    return res


def target(case, res):
    return min(getattr(res, 'n_ref', 0), 40)
