"""Processor-level observation: build a spec, construct the processor, decode (all / sampled) vectors."""
import itertools
from . import build, identity
from .core import exc_sig, HarnessError


class Obs:
    def __init__(self):
        self.b = None
        self.gp = None
        self.build_exc = None      # exception raised while building graph / processor / des_vars
        self.build_stage = None
        self.des_vars = []         # meta dicts
        self.records = []          # dicts: x, x_corr, active, ident, final, feasible, exc, inst
        self.exhaustive = False
        self.n_space = None
        self.initial_feasible = None


def dv_meta(b, gp):
    from adsg_core.graph.adsg_nodes import SelectionChoiceNode, ConnectionChoiceNode, DesignVariableNode
    out = []
    for dv in gp.des_vars:
        node = dv.node
        kind = 'sel' if isinstance(node, SelectionChoiceNode) else \
            'conn' if isinstance(node, ConnectionChoiceNode) else 'dv' if isinstance(node, DesignVariableNode) else '?'
        out.append({'name': dv.name, 'kind': kind, 'node': b.nm(node), 'discrete': bool(dv.is_discrete),
                    'n_opts': dv.n_opts if dv.is_discrete else None,
                    'bounds': None if dv.is_discrete else [float(dv.bounds[0]), float(dv.bounds[1])],
                    'cond': bool(dv.conditionally_active),
                    'options': [b.nm(o) for o in dv.options] if (kind == 'sel' and dv.options) else None})
    return out


def lcg_vectors(meta, seed, n):
    """Deterministic pseudo-random vectors from an integer drawn by Hypothesis (replayable)"""
    state = (int(seed)*6364136223846793005+1442695040888963407) % (1 << 64)
    out = []
    for _ in range(n):
        x = []
        for m in meta:
            state = (state*6364136223846793005+1442695040888963407) % (1 << 64)
            u = (state >> 11)/float(1 << 53)
            if m['discrete']:
                x.append(min(m['n_opts']-1, int(u*m['n_opts'])))
            else:
                lo, hi = m['bounds']
                x.append([lo, hi, (lo+hi)/2, lo+u*(hi-lo)][int(u*4) % 4])
        out.append(x)
    return out


def all_vectors(meta, max_enum):
    axes = []
    n = 1
    for m in meta:
        if m['discrete']:
            axes.append(list(range(m['n_opts'])))
        else:
            lo, hi = m['bounds']
            axes.append([lo, lo+0.3*(hi-lo), hi])
        n *= len(axes[-1])
        if n > max_enum:
            return None, n
    return [list(x) for x in itertools.product(*axes)], n


def corner_vectors(meta):
    lo = [0 if m['discrete'] else m['bounds'][0] for m in meta]
    hi = [m['n_opts']-1 if m['discrete'] else m['bounds'][1] for m in meta]
    out = [lo, hi]
    for i in range(len(meta)):
        x = list(lo)
        x[i] = hi[i]
        out.append(x)
        y = list(hi)
        y[i] = lo[i]
        out.append(y)
    return out


def decode_one(obs, gp, x, create=True, keep_inst=False):
    b = obs.b
    rec = {'x': list(x), 'exc': None}
    try:
        inst, xc, act = gp.get_graph(list(x), create=create)
    except Exception as e:  # noqa
        sig = exc_sig(e)
        if sig.endswith('@harness'):
            raise
        rec['exc'] = sig
        rec['exc_msg'] = f'{type(e).__name__}: {e}'[:300]
        return rec
    rec['x_corr'] = [float(v) if isinstance(v, float) else int(v) for v in xc]
    rec['active'] = [bool(a) for a in act]
    if inst is not None:
        rec['ident'] = identity.instance_ident(b, inst)
        rec['final'] = bool(inst.final)
        rec['feasible'] = bool(inst.feasible)
        if keep_inst:
            rec['inst'] = inst
    return rec


def observe(case, max_enum=512, n_sample=192, keep_inst=False, vectors=None, before_processor=None):
    """case: {'spec':..., 'enc': 'COMPLETE'|'FAST', 'vseed': int}"""
    spec = case['spec']
    obs = Obs()
    build.reset_globals()
    try:
        obs.b = build.build(spec)
    except Exception as e:  # noqa
        sig = exc_sig(e)
        if sig.endswith('@harness'):
            raise
        obs.build_exc, obs.build_stage = e, 'graph'
        return obs
    try:
        obs.initial_feasible = bool(obs.b.dsg.feasible)
    except Exception as e:  # noqa
        obs.build_exc, obs.build_stage = e, 'feasible'
        return obs
    if before_processor is not None:
        before_processor(obs.b)
    try:
        obs.gp = gp = build.processor(obs.b, case.get('enc', 'COMPLETE'))
        obs.des_vars = dv_meta(obs.b, gp)
    except Exception as e:  # noqa
        sig = exc_sig(e)
        if sig.endswith('@harness'):
            raise
        obs.build_exc, obs.build_stage = e, 'processor'
        return obs

    if vectors is None:
        vectors, n = all_vectors(obs.des_vars, max_enum)
        obs.n_space = n
        if vectors is None:
            vectors = corner_vectors(obs.des_vars)+lcg_vectors(obs.des_vars, case.get('vseed', 0), n_sample)
        else:
            obs.exhaustive = True
    for x in vectors:
        obs.records.append(decode_one(obs, gp, x, keep_inst=keep_inst))
    return obs
