"""
R-CONN: reference model of valid connection matrices (DESIGN.md 4.2). Shares no code with adsg_core.

A node spec is a dict: {'conns': [..]} (finite degree list) or {'min': k} (open ended k..*), plus 'rep': bool.
An existence pattern is a dict: {'src': {i: [degrees]}, 'tgt': {j: [degrees]}} of overrides; an absent node has the
override [0]. `settings` = {'src': [...], 'tgt': [...], 'excl': [[i, j], ...], 'par': int | None}.
"""
import itertools
import numpy as np

BOX_MAX = 300_000


class TooLarge(Exception):
    pass


def effective_nodes(nodes, override):
    """Apply an override map; returns list of (degree-set or None, min, rep, present)"""
    eff = []
    for i, node in enumerate(nodes):
        ov = override.get(i, override.get(str(i))) if override else None
        if ov is not None:
            conns, mn = sorted(set(ov)), None
        elif 'conns' in node and node['conns'] is not None:
            conns, mn = sorted(set(node['conns'])), None
        else:
            conns, mn = None, node['min']
        present = not (conns is not None and (len(conns) == 0 or conns == [0]))
        eff.append({'conns': conns, 'min': mn, 'rep': bool(node.get('rep', False)), 'present': present})
    return eff


def parallel_limit(src_eff, tgt_eff, par=None):
    if par is not None:
        return max(1, par)
    p = 2
    for n in src_eff+tgt_eff:
        if n['present'] and n['conns'] is not None:
            p = max(p, max(n['conns']))
    return p


def limit_matrix(settings, pattern=None):
    pattern = pattern or {}
    src_eff = effective_nodes(settings['src'], pattern.get('src'))
    tgt_eff = effective_nodes(settings['tgt'], pattern.get('tgt'))
    p = parallel_limit(src_eff, tgt_eff, settings.get('par'))
    excl = {(int(a), int(b)) for a, b in (settings.get('excl') or [])}
    lim = np.zeros((len(src_eff), len(tgt_eff)), dtype=int)
    for i, s in enumerate(src_eff):
        for j, t in enumerate(tgt_eff):
            if not s['present'] or not t['present'] or (i, j) in excl:
                continue
            v = p
            if s['conns'] is not None:
                v = min(v, max(s['conns']))
            if t['conns'] is not None:
                v = min(v, max(t['conns']))
            if not s['rep'] or not t['rep']:
                v = min(v, 1)
            lim[i, j] = v
    return lim, src_eff, tgt_eff


def _deg_ok(eff, total):
    if eff['conns'] is not None:
        return total in eff['conns']
    return total >= eff['min']


def is_valid(matrix, settings, pattern=None, _pre=None):
    lim, src_eff, tgt_eff = _pre or limit_matrix(settings, pattern)
    m = np.asarray(matrix)
    if m.shape != lim.shape:
        return False
    if np.any(m < 0) or np.any(m > lim):
        return False
    for i, s in enumerate(src_eff):
        if not _deg_ok(s, int(m[i, :].sum())):
            return False
    for j, t in enumerate(tgt_eff):
        if not _deg_ok(t, int(m[:, j].sum())):
            return False
    return True


def valid_matrices(settings, pattern=None, box_max=BOX_MAX):
    """All valid matrices as a sorted list of tuple-of-tuples."""
    lim, src_eff, tgt_eff = limit_matrix(settings, pattern)
    n_src, n_tgt = lim.shape
    if n_src == 0 or n_tgt == 0:
        m = np.zeros((n_src, n_tgt), dtype=int)
        return [_tup(m)] if is_valid(m, settings, pattern, _pre=(lim, src_eff, tgt_eff)) else []

    # Row-wise enumeration: for every row, all vectors within the per-pair limits with an admissible row sum
    row_opts = []
    for i in range(n_src):
        opts = []
        n_box = 1
        for j in range(n_tgt):
            n_box *= int(lim[i, j])+1
        if n_box > box_max:
            raise TooLarge
        for row in itertools.product(*[range(int(lim[i, j])+1) for j in range(n_tgt)]):
            if _deg_ok(src_eff[i], sum(row)):
                opts.append(row)
        row_opts.append(opts)

    n_tot = 1
    for opts in row_opts:
        n_tot *= max(1, len(opts))
    if n_tot > box_max*4:
        raise TooLarge

    out = []
    for rows in itertools.product(*row_opts):
        ok = True
        for j in range(n_tgt):
            if not _deg_ok(tgt_eff[j], sum(r[j] for r in rows)):
                ok = False
                break
        if ok:
            out.append(tuple(rows))
    return sorted(out)


def _tup(m):
    return tuple(tuple(int(v) for v in row) for row in np.asarray(m).reshape(np.asarray(m).shape))


def box_matrices(settings, pattern=None, extra=0, box_max=20000):
    """All matrices of the box [0, lim+extra] (for validity-predicate comparison)"""
    lim, _, _ = limit_matrix(settings, pattern)
    n_src, n_tgt = lim.shape
    n = 1
    for v in lim.flatten():
        n *= int(v)+1+extra
    if n > box_max:
        raise TooLarge
    for flat in itertools.product(*[range(int(v)+1+extra) for v in lim.flatten()]):
        yield tuple(tuple(flat[i*n_tgt+j] for j in range(n_tgt)) for i in range(n_src))


def selftest():
    # docs/theory.md connection example: sources Grp (S1,S2 each 1..2 -> 2,3,4 / only S1 -> 1,2) and S3 (0..2? see
    # below), targets T1 (1), T2 (0,2)
    # From the table: S3 totals {0,1,2}; T1 always 1; T2 in {0,2}; Grp non-repeated.
    settings = {'src': [{'conns': [2, 3, 4], 'rep': False}, {'conns': [0, 1, 2], 'rep': False}],
                'tgt': [{'conns': [1], 'rep': False}, {'conns': [0, 2], 'rep': True}], 'excl': []}
    # This only pins the general machinery: 2x2 with limits
    mats = valid_matrices({'src': [{'conns': [1], 'rep': False}], 'tgt': [{'conns': [0, 1], 'rep': False},
                                                                            {'conns': [0, 1], 'rep': False}]})
    assert mats == [((0, 1),), ((1, 0),)], mats
    mats = valid_matrices({'src': [{'min': 0, 'rep': True}], 'tgt': [{'min': 0, 'rep': True}]})
    assert mats == [((0,),), ((1,),), ((2,),)], mats  # parallel limit defaults to 2
    mats = valid_matrices({'src': [{'conns': [3], 'rep': True}], 'tgt': [{'min': 0, 'rep': True}]})
    assert mats == [((3,),)], mats
    mats = valid_matrices({'src': [{'conns': [1, 2], 'rep': False}, {'conns': [1], 'rep': False}],
                           'tgt': [{'conns': [1], 'rep': False}, {'conns': [0, 1, 2], 'rep': False}],
                           'excl': [[1, 0]]})
    assert mats == [((1, 0), (0, 1)), ((1, 1), (0, 1))], mats
    mats = valid_matrices({'src': [{'conns': [1], 'rep': False}, {'conns': [1], 'rep': False}],
                           'tgt': [{'conns': [1], 'rep': False}, {'conns': [1], 'rep': False}]},
                          {'src': {1: [0]}, 'tgt': {}})
    assert mats == [], mats
    mats = valid_matrices({'src': [{'conns': [1], 'rep': False}, {'conns': [1], 'rep': False}],
                           'tgt': [{'conns': [1], 'rep': False}, {'conns': [0, 1], 'rep': False}]},
                          {'src': {1: [0]}, 'tgt': {}})
    assert mats == [((1, 0), (0, 0))], mats
    return True
