"""
R-SEL: reference model of the architectures of a spec (DESIGN.md 4.1). Shares no code with adsg_core.

Works on the plain JSON spec only (see build.py for the spec format).
"""
import itertools
from collections import Counter
from . import refconn

ARCH_MAX = 20000


class TooLarge(Exception):
    pass


class Model:
    def __init__(self, spec):
        self.spec = spec
        self.nodes = spec['nodes']
        self.start = list(spec['start'])
        self.succ = {n: [] for n in self.nodes}
        for u, v in spec.get('edges', []):
            self.succ[u].append(v)
        self.choices = {c['id']: c for c in spec.get('choices', [])}
        self.choices_by_origin = {}
        for c in spec.get('choices', []):
            self.choices_by_origin.setdefault(c['origin'], []).append(c['id'])
        self.incompat = [tuple(p) for p in spec.get('incompat', [])]
        self.conns = spec.get('conns', [])
        # grouping nodes are derived by their members
        for cc in self.conns:
            for side in ('src', 'tgt'):
                for item in cc[side]:
                    if isinstance(item, dict):
                        for m in item['members']:
                            if item['grp'] not in self.succ[m]:
                                self.succ[m].append(item['grp'])
        self.cons = spec.get('cons', [])
        self.choice_order = sorted(self.choices)  # decision ids sort as strings (the documented sort key)

    # --- closures ---
    def necessary_closure(self, seed):
        """Closure under derivation edges only"""
        seen = set(seed)
        todo = list(seed)
        while todo:
            u = todo.pop()
            for v in self.succ[u]:
                if v not in seen:
                    seen.add(v)
                    todo.append(v)
        return seen

    def closure(self, assignment):
        """Closure of the start nodes under derivation edges and origin->assigned option; returns K and the list of
        active choices without an assignment"""
        seen = set(self.start)
        todo = list(self.start)
        while todo:
            u = todo.pop()
            nxt = list(self.succ[u])
            for cid in self.choices_by_origin.get(u, []):
                if cid in assignment:
                    nxt.append(assignment[cid])
            for v in nxt:
                if v not in seen:
                    seen.add(v)
                    todo.append(v)
        active = [cid for cid in self.choice_order if self.choices[cid]['origin'] in seen]
        return seen, active

    def has_incompat(self, k):
        for a, b in self.incompat:
            if a in k and b in k:
                return True
        return False

    # --- choice constraints ---
    def _constraint_ok(self, assignment, active):
        for con in self.cons:
            members = [m for m in con['on'] if m in self.choices]
            if len(members) < 2:
                continue
            members = sorted(members)  # constraint order = ordered_choice_nodes = sorted by id
            act = [m for m in members if m in active]
            if len(act) < 2:
                continue
            idx = [self.option_index(m, assignment[m]) for m in act]
            t = con['type']
            if t == 'LINKED':
                if len(set(idx)) != 1:
                    return False
            elif t == 'PERMUTATION':
                if len(set(idx)) != len(idx):
                    return False
            elif t == 'UNORDERED':
                if any(idx[i] > idx[i+1] for i in range(len(idx)-1)):
                    return False
            elif t == 'UNORDERED_NOREPL':
                if any(idx[i] >= idx[i+1] for i in range(len(idx)-1)):
                    return False
            else:
                raise ValueError(t)
        return True

    def option_index(self, cid, opt):
        return self.option_order(cid).index(opt)

    def option_order(self, cid):
        """Documented ordering rule: options are sorted by option_id, which is the position in the first selection
        choice that listed the node (choices are added in spec order)"""
        if not hasattr(self, '_opt_id'):
            opt_id = {}
            for c in self.spec.get('choices', []):
                for i, o in enumerate(c['opts']):
                    opt_id.setdefault(o, i)
            self._opt_id = opt_id
        opts = self.choices[cid]['opts']
        return sorted(opts, key=lambda o: self._opt_id[o])  # stable

    # --- architectures (selection part) ---
    def sel_architectures(self, arch_max=ARCH_MAX, with_infeasible=False):
        """Returns list of dicts {'nodes': frozenset, 'assign': {cid: opt}} (active choices only).
        Feasible = no incompatible pair in K and constraints hold."""
        out = []
        infeasible = []
        stack = [{}]
        n_visited = 0
        while stack:
            assignment = stack.pop()
            n_visited += 1
            if n_visited > arch_max*4:
                raise TooLarge
            k, active = self.closure(assignment)
            undecided = [cid for cid in active if cid not in assignment]
            if undecided:
                cid = undecided[0]
                for opt in reversed(self.choices[cid]['opts']):
                    a2 = dict(assignment)
                    a2[cid] = opt
                    stack.append(a2)
                continue
            arch = {'nodes': frozenset(k), 'assign': {cid: assignment[cid] for cid in active}}
            if self.has_incompat(k) or not self._constraint_ok(assignment, active):
                infeasible.append(arch)
            else:
                out.append(arch)
                if len(out) > arch_max:
                    raise TooLarge
        if with_infeasible:
            return out, infeasible
        return out

    def sel_ident(self, arch):
        sel = Counter((self.choices[cid]['origin'], opt) for cid, opt in arch['assign'].items())
        return arch['nodes'], tuple(sorted(sel.items()))

    # --- connection part ---
    def conn_settings(self, cc, k):
        """R-CONN settings of connection choice cc for node set K; returns (settings, src_names, tgt_names,
        choice_present)."""
        def side(items):
            names, nodes = [], []
            for item in items:
                if isinstance(item, dict):
                    g = item['grp']
                    if g not in k:
                        continue
                    members = [m for m in item['members'] if m in k]
                    names.append(g)
                    nodes.append(self._combined(members))
                else:
                    if item not in k:
                        continue
                    names.append(item)
                    nodes.append(self._node_deg(item))
            return names, nodes

        src_names, src = side(cc['src'])
        tgt_names, tgt = side(cc['tgt'])
        excl = []
        for a, b in cc.get('excl', []):
            if a in src_names and b in tgt_names:
                excl.append([src_names.index(a), tgt_names.index(b)])
        return {'src': src, 'tgt': tgt, 'excl': excl, 'par': None}, src_names, tgt_names, len(src_names) > 0

    def _node_deg(self, name):
        nd = self.nodes[name]
        deg = nd['deg']
        if isinstance(deg, list):
            return {'conns': list(deg), 'rep': bool(nd.get('rep'))}
        if deg.get('max') is None:
            return {'min': deg['min'], 'rep': bool(nd.get('rep'))}
        return {'conns': list(range(deg['min'], deg['max']+1)), 'rep': bool(nd.get('rep'))}

    def _combined(self, members):
        degs = [self._node_deg(m) for m in members]
        rep = any(d['rep'] for d in degs)
        if any('min' in d for d in degs):
            mn = sum(d['min'] if 'min' in d else min(d['conns']) for d in degs)
            return {'min': mn, 'rep': rep}
        sums = sorted({sum(c) for c in itertools.product(*[d['conns'] for d in degs])})
        return {'conns': sums, 'rep': rep}

    def conn_sets(self, cc, k):
        """Valid connection edge multisets (as sorted tuples of (src, tgt) names) for K; None if the architecture is
        infeasible for this connection choice."""
        settings, src_names, tgt_names, present = self.conn_settings(cc, k)
        if not present:
            # No source: the choice node is gone; every present target must accept zero connections
            for t in settings['tgt']:
                if 'conns' in t:
                    if 0 not in t['conns']:
                        return None
                elif t['min'] > 0:
                    return None
            return [()]
        try:
            mats = refconn.valid_matrices(settings)
        except refconn.TooLarge:
            raise TooLarge
        if not mats:
            return None
        out = []
        for m in mats:
            edges = []
            for i, row in enumerate(m):
                for j, v in enumerate(row):
                    edges += [(src_names[i], tgt_names[j])]*v
            out.append(tuple(sorted(edges)))
        return out

    def dv_nodes_in(self, k):
        return [n for n, nd in self.nodes.items() if nd['k'] == 'dv' and n in k]

    def full_count(self, archs):
        """Number of full discrete architectures and per sel-arch info; archs infeasible by connections dropped"""
        total = 0
        kept = []
        for arch in archs:
            n = 1
            ok = True
            for cc in self.conns:
                sets = self.conn_sets(cc, arch['nodes'])
                if sets is None:
                    ok = False
                    break
                n *= len(sets)
            if not ok:
                continue
            for dv in self._free_dvs(arch['nodes']):
                nd = self.nodes[dv]
                if 'opts' in nd:
                    n *= nd['opts']
            total += n
            kept.append((arch, n))
        return total, kept

    def _free_dvs(self, k):
        """dv nodes in K, with linked groups collapsed to their first (sorted by name) existing member... the link
        semantics are checked separately; for counting, one variable per LINKED group that has the *first* member"""
        linked = {}
        for i, con in enumerate(self.cons):
            for m in con['on']:
                if m in self.nodes and self.nodes[m]['k'] == 'dv':
                    linked[m] = i
        seen = set()
        out = []
        for dv in self.dv_nodes_in(k):
            g = linked.get(dv)
            if g is not None:
                if g in seen:
                    continue
                seen.add(g)
            out.append(dv)
        return out

    def feasible_archs(self, arch_max=ARCH_MAX):
        """Selection architectures that also admit a valid connection set for every connection choice"""
        archs = self.sel_architectures(arch_max=arch_max)
        if not self.conns:
            return archs
        out = []
        for a in archs:
            if all(self.conn_sets(cc, a['nodes']) is not None for cc in self.conns):
                out.append(a)
        return out


def selftest():
    # The selection example of docs/theory.md
    spec = theory_example()
    m = Model(spec)
    archs, infeasible = m.sel_architectures(with_infeasible=True)
    got = sorted((a['assign'].get('C1'), a['assign'].get('C2')) for a in archs)
    assert got == sorted([('N4', 'N8'), ('N4', 'N11'), ('N5', 'N8'), ('N5', 'N11'), ('N6', None), ('N13', 'N11')]), got
    inf = sorted((a['assign'].get('C1'), a['assign'].get('C2')) for a in infeasible)
    assert inf == sorted([('N12', None), ('N13', 'N8')]), inf
    a5 = [a for a in archs if a['assign']['C1'] == 'N6'][0]
    assert a5['nodes'] == frozenset(['N1', 'N2', 'N3', 'N6', 'N8', 'N9', 'N10']), a5
    a4 = [a for a in archs if a['assign'] == {'C1': 'N5', 'C2': 'N11'}][0]
    assert a4['nodes'] == frozenset(['N1', 'N2', 'N3', 'N5', 'N6', 'N7', 'N8', 'N9', 'N10', 'N11']), a4

    # Choice constraint examples of theory.md: two choices x three options
    for t, expect in [('LINKED', ['AA', 'BB', 'CC']), ('PERMUTATION', ['AB', 'AC', 'BA', 'BC', 'CA', 'CB']),
                      ('UNORDERED', ['AA', 'AB', 'AC', 'BB', 'BC', 'CC']), ('UNORDERED_NOREPL', ['AB', 'AC', 'BC'])]:
        spec = {'nodes': {n: {'k': 'gen'} for n in ['S', 'A1', 'B1', 'C1', 'A2', 'B2', 'C2']}, 'edges': [],
                'start': ['S'], 'choices': [{'id': 'c1', 'origin': 'S', 'opts': ['A1', 'B1', 'C1']},
                                            {'id': 'c2', 'origin': 'S', 'opts': ['A2', 'B2', 'C2']}],
                'cons': [{'type': t, 'on': ['c1', 'c2']}]}
        got = sorted(a['assign']['c1'][0]+a['assign']['c2'][0] for a in Model(spec).sel_architectures())
        assert got == expect, (t, got)
    return True


def theory_example():
    """Reconstructed from the table in docs/theory.md (node statuses per architecture)"""
    names = [f'N{i}' for i in range(1, 14)]
    return {
        'nodes': {n: {'k': 'gen'} for n in names},
        'edges': [['N1', 'N2'], ['N1', 'N3'], ['N4', 'N7'], ['N5', 'N7'], ['N5', 'N6'], ['N6', 'N8'], ['N8', 'N9'],
                  ['N9', 'N10'], ['N10', 'N8'], ['N13', 'N7']],
        'choices': [{'id': 'C1', 'origin': 'N3', 'opts': ['N4', 'N5', 'N6', 'N12', 'N13']},
                    {'id': 'C2', 'origin': 'N7', 'opts': ['N8', 'N11']}],
        'incompat': [['N2', 'N12'], ['N9', 'N13']],
        'start': ['N1'],
    }
