"""Strategy helpers shared by all generators."""
from hypothesis import strategies as st


def ints(a, b):
    """Integers a..b. Small ranges are drawn with sampled_from: Hypothesis 6.168's `fuzz_one_input` (the entry point the
    atheris engine drives) rejects EVERY buffer for st.integers(2, 3), (3, 4), (4, 7), (10, 11), ... (measured: 0 of 60
    pseudo-random buffers accepted, against 60 of 60 for (1, 3) or (2, 4)), which silently disabled the second engine
    for every strategy containing such a draw."""
    a, b = int(a), int(b)
    if 0 <= b-a <= 64:
        return st.sampled_from(list(range(a, b+1)))
    return st.integers(a, b)
