"""Second engine (thorough tier): coverage-guided fuzzing with atheris (libFuzzer) driving the SAME Hypothesis strategies
and the SAME oracles through `test.hypothesis.fuzz_one_input`. One process per shard; statistics are flushed to the
output file periodically because libFuzzer ends the process itself (atexit handlers do not run).

python -m vf.fuzz --check C09 --runs 20000 --seed 7 --out stats.json
"""
import os
import sys
import json
import time
import argparse
import importlib

VERIF = os.path.dirname(os.path.dirname(os.path.abspath(__file__)))


NUMBA_MODULES = ['adsg_core.optimization.assign_enc.matrix', 'adsg_core.optimization.assign_enc.encoding',
                 'adsg_core.optimization.assign_enc.selector']


def ensure_atheris():
    deps = os.path.join(VERIF, '.deps')
    if deps not in sys.path:
        sys.path.insert(0, deps)
    try:
        import atheris  # noqa
        return True
    except ImportError:
        import subprocess
        r = subprocess.run([sys.executable, '-m', 'pip', 'install', '--no-index', '--find-links',
                            '/opt/veriftools/wheels', '--target', deps, 'atheris'], capture_output=True, text=True)
        try:
            import atheris  # noqa
            return True
        except ImportError:
            print('atheris unavailable:', r.stderr[-300:], file=sys.stderr)
            return False


def main():
    ap = argparse.ArgumentParser()
    ap.add_argument('--check', required=True)
    ap.add_argument('--runs', type=int, default=5000)
    ap.add_argument('--seed', type=int, default=1)
    ap.add_argument('--tier', default='thorough')
    ap.add_argument('--out', required=True)
    args = ap.parse_args()
    if not ensure_atheris():
        with open(args.out, 'w') as fp:
            json.dump({'unavailable': True}, fp)
        return 0
    import atheris
    from . import build, core
    build.ensure_path()
    check = importlib.import_module(f'vf.checks.{args.check.lower()}')
    modules = list(getattr(check, 'FUZZ_MODULES', []))
    # atheris keeps only the top-level package of `include`: all of adsg_core is instrumented, except the modules that
    # hold numba-compiled functions (instrumented bytecode makes numba fail with TypingError)
    with atheris.instrument_imports(include=['adsg_core'], exclude=NUMBA_MODULES):
        for m in modules+NUMBA_MODULES:
            importlib.import_module(m)
    build.install_ids()

    import hypothesis
    from hypothesis import given, settings, HealthCheck
    stats = core.Stats(check.ID)
    known = core.load_known(check.ID)
    seen_sigs = set()
    t_flush = [time.time()]

    def flush():
        data = stats.to_json()
        data['engine'] = 'atheris'
        with open(args.out+'.tmp', 'w') as fp:
            json.dump(data, fp, default=str)
        os.replace(args.out+'.tmp', args.out)

    strat = check.fuzz_strategy(args.tier) if hasattr(check, 'fuzz_strategy') else check.strategy(args.tier)

    @settings(database=None, deadline=None, suppress_health_check=list(HealthCheck))
    @given(strat)
    def body(case):
        res = check.check_case(case)
        stats.record(case, res, 'atheris')
        rest = core.split_violations(check.ID, case, res, known, stats) if res.violations else []
        for v in rest:
            if 'TypingError' in v['sig'] or 'numba' in v.get('detail', ''):
                stats.extra['instrumentation_artifacts'] = stats.extra.get('instrumentation_artifacts', 0)+1
                continue   # numba refusing instrumented bytecode is an artefact of this engine, never a violation
            if v['sig'] not in seen_sigs:
                seen_sigs.add(v['sig'])
                path = core.write_replay(check.ID, case, v, meta={'seed': args.seed, 'tier': args.tier,
                                                                  'source': 'atheris'})
                stats.violations.append(dict(v, replay=path))
                flush()
        if stats.cases % 10 == 0 or time.time()-t_flush[0] > 2:
            t_flush[0] = time.time()
            flush()

    flush()
    corpus = os.path.join(os.environ.get('XDG_CACHE_HOME', '/tmp'), f'corpus_{args.check}_{args.seed}')
    os.makedirs(corpus, exist_ok=True)
    # Starting corpus: libFuzzer starts from tiny inputs, which Hypothesis rejects as too short for the larger strategies
    # (no instrumented code is reached, so there is no coverage signal to grow from). A few buffers of pseudo-random
    # bytes (fixed by the seed) that Hypothesis accepts are written to the corpus first.
    import random
    rng = random.Random(args.seed)
    n_seeded = 0
    for k in range(200):
        if n_seeded >= 12:
            break
        buf = rng.randbytes(rng.choice([256, 1024, 3000]))
        try:
            canon = body.hypothesis.fuzz_one_input(buf)
        except Exception:  # noqa  (violations are recorded in stats by body itself)
            canon = None
        if canon is not None:
            with open(os.path.join(corpus, f'seed_{k:03d}'), 'wb') as fp:
                fp.write(bytes(canon))
            n_seeded += 1
    stats.extra['atheris_corpus_seeds'] = n_seeded
    flush()
    atheris.Setup([sys.argv[0], f'-runs={args.runs}', f'-seed={args.seed}', '-max_len=4096', '-verbosity=0',
                   '-print_final_stats=0', corpus], body.hypothesis.fuzz_one_input)
    try:
        atheris.Fuzz()
    finally:
        flush()


if __name__ == '__main__':
    main()
