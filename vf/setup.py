"""MANIFEST.setup_cmd: offline setup. Checks that the interpreter, Hypothesis and the repository import, and runs the
oracle self-tests. Nothing is fetched; nothing is built (adsg_core is pure Python, imported from /repo)."""
import os
import sys
import subprocess

VERIF = os.path.dirname(os.path.dirname(os.path.abspath(__file__)))


def main():
    try:
        import hypothesis  # noqa
    except ImportError:
        subprocess.check_call([sys.executable, '-m', 'pip', 'install', '--no-index', '--find-links',
                               '/opt/veriftools/wheels', 'hypothesis'])
    from vf import refsel, refconn
    refconn.selftest()
    refsel.selftest()
    env = dict(os.environ, PYTHONPATH=os.pathsep.join([os.environ.get('VF_REPO', '/repo'), VERIF]))
    subprocess.check_call([sys.executable, '-c', 'import adsg_core.optimization.graph_processor'], env=env)
    # optional second engine of the thorough tier (atheris wheel from the offline wheelhouse, never fetched)
    subprocess.call([sys.executable, '-m', 'pip', 'install', '--quiet', '--no-index', '--find-links',
                     '/opt/veriftools/wheels', '--target', os.path.join(VERIF, '.deps'), 'atheris'],
                    stdout=subprocess.DEVNULL, stderr=subprocess.DEVNULL)
    for d in ('evidence', 'replays'):
        os.makedirs(os.path.join(VERIF, d), exist_ok=True)
    print('vf setup ok')


if __name__ == '__main__':
    main()
