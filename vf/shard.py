"""One worker process: replay corpus part, fixed (seed independent) cases part, random campaign part."""
import os
import sys
import json
import glob
import time
import argparse
import importlib
import tempfile
import shutil
import traceback


def main():
    ap = argparse.ArgumentParser()
    ap.add_argument('--check', required=True)
    ap.add_argument('--tier', default='quick')
    ap.add_argument('--shard', type=int, default=0)
    ap.add_argument('--nshards', type=int, default=1)
    ap.add_argument('--seed', type=int, default=1)
    ap.add_argument('--out', required=True)
    ap.add_argument('--replay', default=None)
    ap.add_argument('--examples', type=int, default=None)
    args = ap.parse_args()

    if os.environ.get('VF_FAULTHANDLER'):   # triage aid: kill -USR1 <pid> dumps all thread stacks to stderr
        import faulthandler, signal
        faulthandler.register(signal.SIGUSR1, file=open(os.path.join(os.environ['VF_FAULTHANDLER'], f'fh_{os.getpid()}.log'), 'w'),
                              all_threads=True)
    cache_dir = tempfile.mkdtemp(prefix='vf_cache_')
    os.environ['XDG_CACHE_HOME'] = cache_dir
    os.environ.setdefault('NUMBA_CACHE_DIR', os.path.join(cache_dir, 'numba'))
    code = 2
    try:
        code = run(args)
    except SystemExit:
        raise
    except BaseException as e:  # noqa
        with open(args.out, 'w') as fp:
            json.dump({'harness_error': f'{type(e).__name__}: {e}\n{traceback.format_exc()}'}, fp)
        code = 2
    finally:
        shutil.rmtree(cache_dir, ignore_errors=True)
    sys.stdout.flush()
    os._exit(code)  # worker threads of the time limiter must not keep the shard alive


def run(args):
    from . import core, build, refsel, refconn
    build.ensure_path()
    # Oracle self-tests: an oracle bug must never print VIOLATION
    refconn.selftest()
    refsel.selftest()
    build.install_ids()

    check = importlib.import_module(f'vf.checks.{args.check.lower()}')
    stats = core.Stats(check.ID)
    known = core.load_known(check.ID)

    if args.replay:
        with open(args.replay) as fp:
            data = json.load(fp)
        case = data['case'] if 'case' in data else data
        res = check.check_case(case)
        stats.record(case, res, 'replay')
        rest = core.split_violations(check.ID, case, res, known, stats) if res.violations else []
        for v in rest:
            stats.violations.append(dict(v, replay=os.path.relpath(os.path.abspath(args.replay), core.VERIF)))
        with open(args.out, 'w') as fp:
            json.dump(stats.to_json(), fp, default=str)
        return 0

    # 1. replay corpus (partitioned over shards)
    files = sorted(glob.glob(os.path.join(core.VERIF, 'replays', check.ID, '*.json')))
    known_witness = {}
    for f in known:
        w = f.get('witness', {})
        w = w.get(check.ID) if isinstance(w, dict) else w
        if w:
            known_witness[os.path.normpath(os.path.join(core.VERIF, w))] = f
    for i, path in enumerate(files):
        if i % args.nshards != args.shard:
            continue
        with open(path) as fp:
            data = json.load(fp)
        case = data['case'] if 'case' in data else data
        res = check.check_case(case)
        stats.record(case, res, 'replay:'+os.path.basename(path))
        f = known_witness.get(os.path.normpath(path))
        before = dict(stats.known_hits)
        rest = core.split_violations(check.ID, case, res, known, stats) if res.violations else []
        if f is not None and stats.known_hits.get(f['id'], 0) > before.get(f['id'], 0):
            stats.known_lines.append(f'KNOWN-FINDING: property={check.ID} {f["id"]} {f["what"]}')
        for v in rest:
            stats.violations.append(dict(v, replay=os.path.relpath(path, core.VERIF)))

    # 2. fixed, seed independent cases
    if hasattr(check, 'fixed_cases'):
        n_fixed = 0
        for i, case in enumerate(check.fixed_cases(args.tier)):
            if i % args.nshards != args.shard:
                continue
            n_fixed += 1
            res = check.check_case(case)
            stats.record(case, res, 'fixed')
            rest = core.split_violations(check.ID, case, res, known, stats) if res.violations else []
            if rest and not any(v['sig'] == rest[0]['sig'] for v in stats.violations):
                v = rest[0]
                path = core.write_replay(check.ID, case, v, meta={'source': 'fixed', 'tier': args.tier})
                stats.violations.append(dict(v, replay=path))
        stats.extra['fixed_cases'] = n_fixed

    # 3. random campaign
    n = args.examples if args.examples is not None else check.BUDGET[args.tier]
    if n > 0 and hasattr(check, 'strategy'):
        core.run_campaign(check, stats, known, n, args.seed*1_000_003+args.shard, args.tier)
    if hasattr(check, 'extra_campaigns'):
        for name, strat, n_ex in check.extra_campaigns(args.tier):
            core.run_campaign(check, stats, known, n_ex, args.seed*1_000_003+args.shard+7919, args.tier,
                              strategy=strat, source=name)

    # 4. second engine (thorough tier only): coverage-guided fuzzing of the same strategies / oracles with atheris
    if args.tier == 'thorough' and getattr(check, 'FUZZ_MODULES', None) and not os.environ.get('VF_NO_FUZZ'):
        import subprocess
        fz_out = args.out+'.fuzz.json'
        cmd = [sys.executable, '-m', 'vf.fuzz', '--check', check.ID, '--runs', str(getattr(check, 'FUZZ_RUNS', 4000)),
               '--seed', str(args.seed*1_000_003+args.shard+1), '--tier', args.tier, '--out', fz_out]
        try:
            subprocess.run(cmd, cwd=core.VERIF, env=dict(os.environ), stdout=subprocess.DEVNULL,
                           stderr=subprocess.DEVNULL, timeout=3600)
        except subprocess.TimeoutExpired:
            pass
        if os.path.exists(fz_out):
            with open(fz_out) as fp:
                fz = json.load(fp)
            if not fz.get('unavailable'):
                stats.cases += fz['cases']
                stats.evaluations += fz['evaluations']
                stats.nontrivial |= set(fz['nontrivial'])
                for k, v in fz['classes'].items():
                    stats.classes[k] = stats.classes.get(k, 0)+v
                for k, v in fz['known_hits'].items():
                    stats.known_hits[k] = stats.known_hits.get(k, 0)+v
                for v in fz['violations']:
                    if not any(v['sig'] == w['sig'] for w in stats.violations):
                        stats.violations.append(v)
                stats.extra['atheris_cases'] = fz['cases']
            else:
                stats.extra['atheris_unavailable'] = 1

    with open(args.out, 'w') as fp:
        json.dump(stats.to_json(), fp, default=str)
    return 0


if __name__ == '__main__':
    main()
