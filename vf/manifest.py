"""Regenerates /verif/MANIFEST.json from the table below: python -m vf.manifest"""
import os
import json
import importlib

VERIF = os.path.dirname(os.path.dirname(os.path.abspath(__file__)))

TITLES = {}
with open(os.path.join(VERIF, 'properties.jsonl')) as fp:
    for line in fp:
        p = json.loads(line)
        TITLES[p['id']] = p['title']

# id -> (technique, level text, level note)
CLAIMED = {
    'C01': ('property-based testing: Hypothesis-generated DSG specs x both encoders x exhaustive declared vector space, '
            'oracle = independent reference enumeration (R-SEL closure model + R-CONN brute force)',
            'Generated-input search: every decoded instance must be final, feasible and a member of the independently '
            'enumerated architecture set; any exception is a violation when the reference set is non-empty. Finds '
            'counterexamples within the size bounds, establishes nothing beyond them.',
            'Trusted: vf/refsel.py, vf/refconn.py (self-tested against docs/theory.md); spec bounds of DESIGN.md 3.'),
}

NOT_YET = 'check not built yet in this session (see DESIGN.md 6 for the plan); will be claimed once it is registered'


def main():
    checks = []
    for pid in sorted(CLAIMED):
        tech, text, note = CLAIMED[pid]
        checks.append({
            'property_id': pid,
            'quick_cmd': f'/venv/bin/python -m vf.run {pid} --tier quick',
            'thorough_cmd': f'/venv/bin/python -m vf.run {pid} --tier thorough',
            'evidence_file': f'/verif/evidence/{pid}.json',
            'replay_cmd_template': f'/venv/bin/python -m vf.run {pid} --replay {{path}}',
            'engine': 'vf',
            'level_claimed': {'category': 'exploration', 'text': text, 'design_ref': f'DESIGN.md 6 / {pid}'},
            'level_note': note,
            'technique': tech,
        })
    na_path = os.path.join(VERIF, 'vf', 'not_applicable.json')
    na_reasons = {}
    if os.path.exists(na_path):
        with open(na_path) as fp:
            na_reasons = json.load(fp)
    not_app = [{'property_id': pid, 'reason': na_reasons.get(pid, NOT_YET)}
               for pid in sorted(TITLES) if pid not in CLAIMED]
    manifest = {
        'version': 1,
        'setup_cmd': '/venv/bin/python -m vf.setup',
        'hooks': {
            'guard': 'ADSG_CORE_VERIF',
            'enable': 'no hooks are needed: checks import adsg_core from /repo (PYTHONPATH=/repo) and patch nothing in '
                      'the repository; the guard name is reserved',
            'baseline_off_cmd': 'cd /repo && /venv/bin/python -m pytest -ra -q -p no:cacheprovider --timeout=900 '
                                '--continue-on-collection-errors',
            'source_commits': [],
            'add_only': True,
        },
        'engines': [{
            'name': 'vf', 'path': '/verif/vf',
            'serves_properties': sorted(CLAIMED),
            'kind_free_text': 'Hypothesis 6.168 property-based testing (generated specs, stateful machines, '
                              'bounded-exhaustive enumeration) against independent reference models; 16 worker '
                              'processes per check',
        }],
        'checks': checks,
        'not_applicable': not_app,
        'notes': 'See DESIGN.md. known_findings.json lists genuine defects that are recorded rather than repaired; '
                 'fix: commits in /repo are listed there as fixed entries.',
    }
    with open(os.path.join(VERIF, 'MANIFEST.json'), 'w') as fp:
        json.dump(manifest, fp, indent=1)
    try:
        import jsonschema
        with open('/root/.vp/MANIFEST.schema.json') as fp:
            jsonschema.validate(manifest, json.load(fp))
        print('MANIFEST.json valid;', len(checks), 'checks,', len(not_app), 'not applicable')
    except ImportError:
        print('written (jsonschema unavailable)')


if __name__ == '__main__':
    main()
