"""Regenerates /verif/MANIFEST.json from the table below: python -m vf.manifest"""
import os
import json
import importlib

VERIF = os.path.dirname(os.path.dirname(os.path.abspath(__file__)))

TITLES = {}
with open(os.path.join(VERIF, 'properties.jsonl')) as fp:
    for line in fp:
        p = json.loads(line)
        TITLES[p['id']] = p['title']

# id -> (technique, level text, level note)
CLAIMED = {
    'C01': ('property-based testing: Hypothesis-generated DSG specs x both encoders x exhaustive declared vector space, '
            'oracle = independent reference enumeration (R-SEL closure model + R-CONN brute force)',
            'Generated-input search: every decoded instance must be final, feasible and a member of the independently '
            'enumerated architecture set; any exception is a violation when the reference set is non-empty. Finds '
            'counterexamples within the size bounds, establishes nothing beyond them.',
            'Trusted: vf/refsel.py, vf/refconn.py (self-tested against docs/theory.md); spec bounds of DESIGN.md 3.'),
    'C02': ('property-based testing: Hypothesis-generated selection graphs, all choice orders explored as a decision-set '
            'DAG through the DSG API, oracle = closure predicate on the instance + set equality with the independent '
            'R-SEL enumeration + same decisions => same state',
            'Generated-input search over graphs and over all orders of taking active choices (bounded to 3000/30000 '
            'states per graph); counterexamples are shrunk by Hypothesis and saved as replay files.',
            'Trusted: vf/refsel.py closure model (self-tested on the docs example); graphs <= 12 nodes.'),
    'C06': ('property-based testing: generated selection graphs with 1-3 incompatibility pairs x all choice orders, '
            'oracle = independent R-SEL enumeration (both directions: nothing inadmissible kept, nothing admissible lost)',
            'Generated-input search; the no-over-pruning direction is decided by set equality with the reference '
            'enumeration of all option assignments.',
            'Trusted: vf/refsel.py; reading of "never offered": no feasible final result contains such an option (the '
            'stronger per-state reading is measured as a class label only, see DESIGN.md).'),
    'C09': ('bounded-exhaustive enumeration (18-letter connector alphabet, shapes up to 2x2, all existence patterns) + '
            'Hypothesis-generated settings up to 3x3 with exclusions/overrides, oracle = brute-force R-CONN set, '
            'validity predicate over the limit box, differential count vs generate',
            'Exhaustive over the stated core, random beyond; every pattern is compared as a set against brute force.',
            'Trusted: vf/refconn.py (per-pair limit rule as documented on get_max_conn_parallel).'),
    'C10': ('property-based testing: Hypothesis-generated connector settings x all 150+ registry (encoder, imputer) '
            'combinations x full declared vector space + out-of-range/too-long vectors, oracle = R-CONN validity, round '
            'trip (fixed point), onto-ness and listing equality',
            'Generated-input search; per pattern the image of the declared space is compared as a set with the '
            'brute-force reference set. Combinations declaring > 3000 vectors are excluded and counted.',
            'Trusted: vf/refconn.py; the two constraint-violation imputers are documented not to impute (all -1 marker).'),
    'C11': ('property-based testing: Hypothesis-generated graphs with connection choices (conditional connectors, '
            'grouping nodes, exclusions); per reference selection scenario the DSG API (iter_conn_edges, '
            'validate_conn_edges, apply) is compared with brute-force R-CONN; processor-level differential against the '
            'reference full-architecture set for both encoders',
            'Generated-input search with an independent per-scenario oracle; selection graphs are kept simple (no shared '
            'options / incompatibilities) so that disagreements are attributable to the connection logic.',
            'Trusted: vf/refsel.py conn_settings (grouping degree = sums of present members), vf/refconn.py.'),
    'C13': ('bounded-exhaustive enumeration of constraint type x sizes x placements x {DSG API all orders, COMPLETE, FAST} '
            '+ unit-level exhaustive index matrices + Hypothesis-generated constrained graphs and linked design-variable '
            'nodes; oracle = R-SEL with the documented index predicate',
            'Exhaustive over the stated core (unsatisfiable sizes only for all-permanent placement, where documentation '
            'and statement agree), random beyond.',
            'Trusted: vf/refsel.py index predicate; constraint order = choice-id order (ordered_choice_nodes).'),
    'C03': ('property-based testing: generated DSG specs x both encoders x exhaustive declared vector space; oracle = '
            'round trip decode(decode(x).x_corr), vector-describes-instance relation and injectivity of corrected vectors',
            'Generated-input search with a round-trip / metamorphic oracle over all vectors of each generated graph.',
            'Connection sub-vectors are judged through fixed point + injectivity (their coding itself is C10).'),
    'C04': ('property-based testing: generated DSG specs small enough for a full reference enumeration; oracle = set equality '
            'between decoded get_all_discrete_x rows and the independent R-SEL x R-CONN x DV reference, plus count laws',
            'Generated-input search; both directions (sound rows, complete rows, exactly once) against brute force.',
            'Trusted: vf/refsel.py, vf/refconn.py; reference <= 3000 full architectures per graph.'),
    'C07': ('property-based testing: generated DSG specs x encoders x all vectors; oracle = activeness contract (active => '
            'node exists, inactive => canonical value, unconditional => always active) and path agreement between '
            'enumeration, create=True/False decodes and corrected raw vectors',
            'Generated-input search with implication and differential oracles over all paths to each valid design.',
            'Encoder-level direct-hit/imputed agreement is covered by C10 (known finding KF02).'),
    'C14': ('property-based testing: generated DSG specs (incl. zero/forced choices, incompatibilities, linked choices) x all '
            'FAST vectors; oracle = R-SEL/R-CONN membership, covering of the reference set, fixed point, differential '
            'against the COMPLETE encoder',
            'Generated-input search; soundness and onto-ness against the reference enumeration, plus encoder differential.',
            'Trusted: reference models; reference <= 3000 full architectures.'),
    'C16': ('property-based testing: generated graphs with design-variable nodes x encoders x create flag x in/on/out-of-range '
            'values (negative, too large, non-integer, +/-inf); oracle = clamp model for stored and reported values',
            'Generated-input search against an explicit clamp model; direct set_des_var_value included; handed-out '
            'architectures are re-inspected after later decodes, copies must be independent, a baseline value on the '
            'design-space graph must neither leak nor change.',
            'NaN is not generated (no contract).'),
    'C17': ('property-based testing: generated graphs with metric nodes of every direction/reference/type combination x all '
            'decoded architectures x drawn evaluator plans; oracle = implication table from the statement + evaluation model',
            'Generated-input search; implications are taken literally (only-if where the text says so); the evaluator '
            'returns exactly the requested nodes, all metric nodes of the design space, or one persistent dict.',
            'Permanent = necessary closure of the start nodes for the if-direction; every-architecture (R-SEL) for only-if.'),
    'C05': ('property-based testing of operation histories (generated sequences over decode/enumerate/statistics/fix/free/'
            'mutate/pickle, bounded-exhaustive for length <= 2/3 on fixed specs) with a fresh-object differential oracle '
            'after every step, plus child processes with other hash seeds and node-id orders',
            'History search: the whole operation sequence is one generated value (shrinks as a unit); after each step the '
            'used processor must be indistinguishable from a freshly built one, and up to 12 probe vectors are each decoded '
            'as the first decode of their own fresh processor.',
            'Fresh objects are built with identical node ids so that only the history differs; other id orders are '
            'exercised through the salt and in child processes.'),
    'C15': ('property-based testing of fix/free histories against the filtered unfixed enumeration (subset law in both '
            'directions) and restoration differential after freeing',
            'History search over (variable, value) fixes and frees; oracle = filter model on the unfixed enumeration plus a '
            'differential against the never-fixed problem (full vector with the fixed values inserted).',
            'Rows where the fixed variable is inactive may or may not be kept (the statement allows both).'),
    'C19': ('generated schedules (function kind x limit x completion offset on a dense grid around the expiry x repetitions, '
            'run under load from 16 concurrent shards) with an outcome-trichotomy / heartbeat / stray-interrupt oracle',
            'Schedule search: the harness sets when the worker function completes relative to the limit; the OS still '
            'chooses the interleaving, so both orders around the expiry are likely but not forced.',
            'Timing margins of 150 ms protect the oracle against scheduling delays; a crash of a shard is reported as a '
            'harness error (exit 2), not as a violation.'),
    'C18': ('property-based testing: generated DSG specs x every applicable single structural edit on a copy (equality / hash '
            'sensitivity), export completeness counts, and pickle transport from child processes with other hash seeds '
            'and node-id orders compared by is_same, design variables and the full decode table',
            'Generated-input search with metamorphic (edit => unequal) and differential (other process) oracles.',
            'Raw hash()/fingerprint() integers are not compared across processes (string hashing is salted); only '
            'is_same after transport and behavioural equality are.'),
    'C20': ('property-based testing: generated source graphs x all their feasible final instances x generated supplementary '
            'graphs with option/existence mappings (nested choices, None entries) and negative variants; oracle = '
            'independent mapping model on the reference architecture',
            'Generated-input search; the expected option and the expected resolved node set come from a mapping model '
            'that shares no code with adsg_core.',
            'Mapping registration order, nested choices below shared nodes, design-variable / metric nodes as mapping keys and '
            'a second supplementary graph chained onto the first are generated.'),
    'C08': ('property-based testing of derive/decode histories over a pool of live graph objects (generated operation '
            'sequences); oracle = snapshot re-observation of every pool member after every operation',
            'History search: the operation sequence is one generated value; any observable change of an existing graph '
            'object is a violation. Constrain operations use all four constraint types over 2-3 choices (also '
            'unsatisfiable sizes), with a seed-independent core of such histories.',
            'Observation uses only public queries (nodes, edges, feasible, final, next choices, options, connection sets, '
            'stored values).'),
    'C12': ('property-based testing: generated connector settings (incl. degenerate and pattern-shaped) x candidate time '
            'limits x cache histories {cold, warm same process, warm written by a child process with another hash seed}; '
            'oracle = selection succeeds, the selected coding passes the C10 encoder oracle (R-CONN), cold/warm/'
            'cross-process differential, and cache-key separation for mutated settings whose reference matrix maps differ',
            'Generated-input and history search; the selected coding is judged by the same reference model as C10.',
            'Only the installed numeric stack can be exercised (numpy 1.26 / pandas 3.0 / scipy 1.17); sub-default time '
            'limits run under load, the oracle judges whatever coding is returned, never which one.'),
}

NOT_YET = 'check not built yet in this session (see DESIGN.md 6 for the plan); will be claimed once it is registered'


def main():
    checks = []
    for pid in sorted(CLAIMED):
        tech, text, note = CLAIMED[pid]
        checks.append({
            'property_id': pid,
            'quick_cmd': f'/venv/bin/python -m vf.run {pid} --tier quick',
            'thorough_cmd': f'/venv/bin/python -m vf.run {pid} --tier thorough',
            'evidence_file': f'/verif/evidence/{pid}.json',
            'replay_cmd_template': f'/venv/bin/python -m vf.run {pid} --replay {{path}}',
            'engine': 'vf',
            'level_claimed': {'category': 'exploration', 'text': text, 'design_ref': f'DESIGN.md 6 / {pid}'},
            'level_note': note,
            'technique': tech+('; thorough tier: + coverage-guided fuzzing (atheris/libFuzzer) of the same strategies '
                               'and oracles' if pid in ('C02', 'C06', 'C08', 'C10', 'C13', 'C17', 'C20') else ''),
        })
    na_path = os.path.join(VERIF, 'vf', 'not_applicable.json')
    na_reasons = {}
    if os.path.exists(na_path):
        with open(na_path) as fp:
            na_reasons = json.load(fp)
    not_app = [{'property_id': pid, 'reason': na_reasons.get(pid, NOT_YET)}
               for pid in sorted(TITLES) if pid not in CLAIMED]
    manifest = {
        'version': 1,
        'setup_cmd': '/venv/bin/python -m vf.setup',
        'hooks': {
            'guard': 'ADSG_CORE_VERIF',
            'enable': 'no hooks are needed: checks import adsg_core from /repo (PYTHONPATH=/repo) and patch nothing in '
                      'the repository; the guard name is reserved',
            'baseline_off_cmd': 'cd /repo && /venv/bin/python -m pytest -ra -q -p no:cacheprovider --timeout=900 '
                                '--continue-on-collection-errors',
            'source_commits': [],
            'add_only': True,
        },
        'engines': [{
            'name': 'vf', 'path': '/verif/vf',
            'serves_properties': sorted(CLAIMED),
            'kind_free_text': 'Hypothesis 6.168 property-based testing (generated specs, generated operation histories, '
                              'bounded-exhaustive enumeration) against independent reference models; 16 worker '
                              'processes per check; the thorough tier of C02, C06, C08, C10, C13, C17 and C20 adds '
                              'coverage-guided fuzzing (atheris 3 / libFuzzer) driving the same strategies and oracles',
        }],
        'checks': checks,
        'not_applicable': not_app,
        'notes': 'See DESIGN.md. known_findings.json lists genuine defects that are recorded rather than repaired; '
                 'fix: commits in /repo are listed there as fixed entries.',
    }
    with open(os.path.join(VERIF, 'MANIFEST.json'), 'w') as fp:
        json.dump(manifest, fp, indent=1)
    try:
        import jsonschema
        with open('/root/.vp/MANIFEST.schema.json') as fp:
            jsonschema.validate(manifest, json.load(fp))
        print('MANIFEST.json valid;', len(checks), 'checks,', len(not_app), 'not applicable')
    except ImportError:
        print('written (jsonschema unavailable)')


if __name__ == '__main__':
    main()
