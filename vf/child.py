"""Batch evaluator run in a child process with a chosen environment (hash seed, cache dir, node-id salt)"""
import sys
import json


def main():
    with open(sys.argv[1]) as fp:
        job = json.load(fp)
    from vf import build
    build.ensure_path()
    from vf.checks import c05
    out = c05.parent_table(job['spec'], job['enc'], job.get('vseed', 0))
    print(json.dumps(out))


if __name__ == '__main__':
    main()
