"""Canonical identity of an instance and of a reference architecture (DESIGN.md 4.3)"""
from collections import Counter


def instance_ident(b, inst, with_dv=True):
    """(frozenset node names, sel multiset ((origin, option), n), conn multiset ((src, tgt), n), dv values)"""
    from adsg_core.graph.graph_edges import EdgeType
    g = inst.graph
    names = frozenset(b.nm(n) for n in g.nodes)
    spec = b.spec
    base = Counter((u, v) for u, v in spec.get('edges', []))
    for cc in spec.get('conns', []):
        for side in ('src', 'tgt'):
            for item in cc[side]:
                if isinstance(item, dict):
                    for m in item['members']:
                        base[(m, item['grp'])] += 1
    der = Counter()
    conn = Counter()
    for u, v, _, data in g.edges(keys=True, data=True):
        t = data.get('type')
        if t == EdgeType.DERIVES:
            der[(b.nm(u), b.nm(v))] += 1
        elif t == EdgeType.CONNECTS:
            conn[(b.nm(u), b.nm(v))] += 1
    sel = Counter()
    for e, n in der.items():
        extra = n-base.get(e, 0)
        if extra > 0:
            sel[e] = extra
    dv = ()
    if with_dv:
        vals = []
        for name, nd in spec['nodes'].items():
            if nd['k'] == 'dv' and 'opts' in nd and name in names:
                vals.append((name, inst.des_var_value(b.node[name])))
        dv = tuple(vals)
    return names, tuple(sorted(sel.items())), tuple(sorted(conn.items())), dv


def ident_key(ident):
    """JSON-able / hashable stable form"""
    names, sel, conn, dv = ident
    return (tuple(sorted(names)), sel, conn, dv)


def conn_edges_of(ident, model, cc):
    """Sorted tuple of (src, tgt) edges in the ident that belong to connection choice cc"""
    srcs = set()
    for item in cc['src']:
        srcs.add(item['grp'] if isinstance(item, dict) else item)
    tgts = set()
    for item in cc['tgt']:
        tgts.add(item['grp'] if isinstance(item, dict) else item)
    out = []
    for (u, v), n in ident[2]:
        if u in srcs and v in tgts:
            out += [(u, v)]*n
    return tuple(sorted(out))
