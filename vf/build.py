"""
spec -> fresh adsg_core objects through the public construction API (DESIGN.md 2, 3).

Spec format (plain JSON):
  nodes:   {name: {'k': 'gen'} | {'k': 'conn', 'deg': [..] | {'min': a, 'max': b|None}, 'rep': bool} | {'k': 'grp'}
                  | {'k': 'dv', 'opts': n} | {'k': 'dv', 'bounds': [lo, hi]}
                  | {'k': 'met', 'dir': -1|1|None, 'ref': float|None, 'type': None|'NONE'|'OBJECTIVE'|...}}
  edges:   [[u, v], ...]                     derivation edges
  choices: [{'id', 'origin', 'opts': [...]}] selection choices (added in this order)
  incompat:[[u, v], ...]
  start:   [names]
  conns:   [{'id', 'src': [name | {'grp': g, 'members': [...]}], 'tgt': [...], 'excl': [[s, t], ...]}]
  cons:    [{'type': 'LINKED'|..., 'on': [choice ids or dv names]}]
  salt:    int   (node-id order, see install_ids)
"""
import os
import sys
import math

_STATE = {'salt': 0, 'k': 0, 'installed': False}
_MASK = (1 << 61)-2


def repo_path():
    return os.environ.get('VF_REPO', '/repo')


def ensure_path():
    rp = repo_path()
    if sys.path[0] != rp:
        if rp in sys.path:
            sys.path.remove(rp)
        sys.path.insert(0, rp)


def install_ids():
    """Deterministic node identities: numbered by creation order, permuted by the salt (harness-only patch)"""
    ensure_path()
    from adsg_core.graph.adsg_nodes import DSGNode
    if _STATE['installed'] or os.environ.get('VF_NATIVE_IDS'):
        return

    def update_node_id(self):
        if self._obj_id:
            self._id = hash(self._obj_id)
            return
        _STATE['k'] += 1
        k, salt = _STATE['k'], _STATE['salt']
        if salt == 0:
            self._id = k
        else:
            self._id = (((k*0x9E3779B97F4A7C15) ^ (salt*0xC2B2AE3D27D4EB4F)) % _MASK)+1

    DSGNode.update_node_id = update_node_id
    _STATE['installed'] = True


def reset_ids(salt=0, base=0):
    _STATE['salt'] = int(salt)
    _STATE['k'] = int(base)


def reset_globals():
    """Reset process-global state of adsg_core so that a case is a function of its spec (DESIGN.md 2)"""
    ensure_path()
    from adsg_core.graph.adsg import DSG
    from adsg_core.optimization.assign_enc import matrix as mx
    from adsg_core.optimization.assign_enc.encoding import Encoder
    DSG._taken_single_choices = []
    for name in dir(mx):
        obj = getattr(mx, name, None)
        if hasattr(obj, 'cache_clear'):
            try:
                obj.cache_clear()
            except Exception:
                pass
    for name in dir(mx.AggregateAssignmentMatrixGenerator):
        obj = getattr(mx.AggregateAssignmentMatrixGenerator, name, None)
        if hasattr(obj, 'cache_clear'):
            try:
                obj.cache_clear()
            except Exception:
                pass
    try:
        Encoder._early_detect_high_imp_ratio = None
    except Exception:
        pass


class Built:
    def __init__(self):
        self.dsg = None          # after set_start_nodes (+ constraints)
        self.node = {}           # name -> node object
        self.name = {}           # node object -> name
        self.choice = {}         # choice id -> SelectionChoiceNode
        self.conn_choice = {}    # id -> ConnectionChoiceNode
        self.spec = None

    def nm(self, node):
        return self.name.get(node, repr(node))


def make_node(name, nd, obj_ids=False):
    from adsg_core.graph.adsg_nodes import (NamedNode, ConnectorNode, ConnectorDegreeGroupingNode, DesignVariableNode,
                                            MetricNode, MetricType)
    k = nd['k']
    if k == 'gen':
        # obj_ids: user-given string identities (e.g. ids of an external model): the node hash is the string hash, which
        # differs between processes with different PYTHONHASHSEED
        return NamedNode(name, obj_id=f'node:{name}') if obj_ids else NamedNode(name)
    if k == 'conn':
        deg = nd['deg']
        rep = bool(nd.get('rep', False))
        if isinstance(deg, list):
            return ConnectorNode(name, deg_list=list(deg), repeated_allowed=rep)
        mx = deg.get('max')
        return ConnectorNode(name, deg_min=deg['min'], deg_max=(math.inf if mx is None else mx), repeated_allowed=rep)
    if k == 'grp':
        return ConnectorDegreeGroupingNode(name)
    if k == 'dv':
        name = nd.get('label') or name     # displayed name; several nodes may carry the same one
        if 'opts' in nd:
            return DesignVariableNode(name, options=[f'o{i}' for i in range(nd['opts'])])
        return DesignVariableNode(name, bounds=tuple(nd['bounds']))
    if k == 'met':
        t = nd.get('type')
        return MetricNode(name, direction=nd.get('dir'), ref=nd.get('ref'),
                          type_=None if t is None else MetricType[t])
    raise ValueError(k)


def build(spec, salt=None, base=0, stop_before_start=False) -> Built:
    install_ids()
    from adsg_core.graph.adsg_basic import BasicDSG
    from adsg_core.graph.adsg import ChoiceConstraintType

    reset_ids(spec.get('salt', 0) if salt is None else salt, base)
    b = Built()
    b.spec = spec
    for name, nd in spec['nodes'].items():
        node = make_node(name, nd, obj_ids=bool(spec.get('obj_ids')))
        b.node[name] = node
        b.name[node] = name

    dsg = BasicDSG()
    for name in spec['nodes']:
        # nodes without any edge would otherwise be unknown to the graph
        dsg.add_node(b.node[name])
    for u, v in spec.get('edges', []):
        dsg.add_edge(b.node[u], b.node[v])
    for c in spec.get('choices', []):
        cn = dsg.add_selection_choice(c['id'], b.node[c['origin']], [b.node[o] for o in c['opts']])
        b.choice[c['id']] = cn
        b.name[cn] = c['id']
    for cc in spec.get('conns', []):
        def side(items):
            out = []
            for item in items:
                if isinstance(item, dict):
                    out.append((b.node[item['grp']], [b.node[m] for m in item['members']]))
                else:
                    out.append(b.node[item])
            return out
        excl = [(b.node[s], b.node[t]) for s, t in cc.get('excl', [])]
        ccn = dsg.add_connection_choice(cc['id'], side(cc['src']), side(cc['tgt']), exclude=excl or None)
        b.conn_choice[cc['id']] = ccn
        b.name[ccn] = cc['id']
    for u, v in spec.get('incompat', []):
        dsg.add_incompatibility_constraint([b.node[u], b.node[v]])
    if stop_before_start:
        b.dsg = dsg
        return b
    if spec.get('restart_first'):
        # the graph is initialised twice: first with a subset of the start nodes, then (on the result) with all of them
        first = dsg.set_start_nodes({b.node[s] for s in spec['restart_first']})
        if all(b.node[s] in first.graph.nodes for s in spec['start']):   # (else the second call would be invalid input)
            dsg = first
    dsg = dsg.set_start_nodes({b.node[s] for s in spec['start']})
    for con in spec.get('cons', []):
        members = [b.choice[m] if m in b.choice else b.node[m] for m in con['on']]
        # a constrained choice may have been auto-resolved already at initialisation: the API then cannot take it
        members = [m for m in members if m in dsg.graph.nodes]
        dsg = dsg.constrain_choices(ChoiceConstraintType[con['type']], members)
    b.dsg = dsg
    return b


def processor(b: Built, encoder='COMPLETE'):
    from adsg_core.optimization.graph_processor import GraphProcessor
    from adsg_core.optimization.hierarchy.registry import SelChoiceEncoderType
    from adsg_core.optimization.assign_enc.selector import EncoderSelector
    EncoderSelector.encoding_timeout = float(os.environ.get('VF_ENC_TIMEOUT', '10'))
    et = None if encoder is None else SelChoiceEncoderType[encoder]
    return GraphProcessor(b.dsg, encoder_type=et)
