"""Regenerates DESIGN.md sections 10.2 (fixes) and 10.3 (known findings) from known_findings.json, between markers."""
import json, re, subprocess
V = '/verif'
d = json.load(open(f'{V}/known_findings.json'))
s = open(f'{V}/DESIGN.md').read()
fixes = '\n'.join(f'- `{x}`' for x in d['fixed'])
kf = []
for f in d['findings']:
    props = ', '.join(f['properties'][:6])+('…' if len(f['properties']) > 6 else '')
    kf.append(f"- **{f['id']}** ({props}) — {f['what']} *Class:* `vf/known.py:{f['class']}`.")
kf = '\n'.join(kf)
s = re.sub(r'<!-- FIXES-BEGIN -->.*?<!-- FIXES-END -->', lambda m: f'<!-- FIXES-BEGIN -->\n{fixes}\n<!-- FIXES-END -->', s, flags=re.S)
s = re.sub(r'<!-- KF-BEGIN -->.*?<!-- KF-END -->', lambda m: f'<!-- KF-BEGIN -->\n{kf}\n<!-- KF-END -->', s, flags=re.S)
s = re.sub(r'<!-- COUNTS -->.*?<!-- /COUNTS -->', lambda m: f'<!-- COUNTS -->{len(d["fixed"])} genuine defects were repaired with `fix:` commits, {len(d["findings"])} are recorded as known findings<!-- /COUNTS -->', s, flags=re.S)
open(f'{V}/DESIGN.md', 'w').write(s)
print(len(d['fixed']), 'fixes', len(d['findings']), 'findings')
