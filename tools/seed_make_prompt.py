import sys
pid=sys.argv[1]
prop=open(f'/tmp/seeds/prop_{pid}.txt').read()
print(f"""You are helping to evaluate a verification framework by producing ONE realistic, subtle regression ("seeded bug") in the Python library jbussemaker/adsg-core (a Design Space Graph library).

You have your own scratch git worktree of the library at /tmp/wt/{pid} (work ONLY there; never touch /repo or /verif, do not read /verif). Python: /venv/bin/python. The package is installed editable from /repo, so to run YOUR modified copy you MUST set PYTHONPATH=/tmp/wt/{pid} (e.g. `cd /tmp/wt/{pid} && PYTHONPATH=/tmp/wt/{pid} XDG_CACHE_HOME=$(mktemp -d) /venv/bin/python ...`). Always use a private XDG_CACHE_HOME temp dir (the library caches encoder selections on disk).

The semantic property the change must BREAK:

{prop}

Task:
1. Read the relevant code in the worktree (start at the anchored files) and docs/theory.md if useful.
2. Make a small source change (a few lines, in adsg_core/ only, not in tests) that breaks this property but (a) still imports/compiles, and (b) still passes the existing test suite: run `cd /tmp/wt/{pid} && PYTHONPATH=/tmp/wt/{pid} XDG_CACHE_HOME=$(mktemp -d) /venv/bin/python -m pytest -q -p no:cacheprovider -x -W ignore adsg_core/tests` and make sure everything passes (about 295 tests, ~30 s; adsg_core/tests/assign_enc/test_time_limiter.py can be flaky under load - rerun it alone if only that fails).
3. The change must NOT be something ordinary use exposes at once. It must need something specific to manifest: an unusual input shape, a multi-step sequence of operations, a particular combination of features (e.g. a shared option node AND an incompatibility), a specific history of calls, or two cooperating sites that each look fine alone. It should look like a plausible refactoring slip or 'optimization', not sabotage.
4. Write a demonstration program /tmp/seeds/{pid}/demo.py (plain python script, no pytest needed; it must set its own private XDG_CACHE_HOME via tempfile BEFORE importing adsg_core, and insert the repo path from the environment variable ADSG_REPO (default /tmp/wt/{pid}) at sys.path[0]) that exits 0 when the property holds on its specific input and exits 1 (printing what went wrong) when it is violated. Verify yourself: with your change the demo exits 1; on the unmodified tree it exits 0. To test the unmodified tree do NOT use git stash (the stash is shared between worktrees and other agents use it concurrently); instead: `git diff > /tmp/seeds/PID/patch.diff; git apply -R /tmp/seeds/PID/patch.diff; <run demo>; git apply /tmp/seeds/PID/patch.diff`.
5. Save the change as a unified diff: `cd /tmp/wt/{pid} && git diff > /tmp/seeds/{pid}/patch.diff` (must apply with `git apply` to the unmodified tree), and write /tmp/seeds/{pid}/meta.json with keys: property ("{pid}"), summary (one sentence: what was changed), needs (what specific input/sequence/combination is needed for it to manifest), files (list of changed files), tests_run (the command you ran and its pass count).
6. Leave the worktree with your change applied (uncommitted). Do not commit.

Reply with a short summary: what you changed, why the test suite does not notice, what is needed to trigger it, and confirmation of the demo's exit codes with and without the change.""")
