"""Copies verified seeded changes from /tmp/seeds/<id>/ into /verif/seeded/<id>/ and prints the DESIGN.md table.
usage: python tools/collect_seeds.py ID[:NOTE] ..."""
import os, re, sys, json, shutil

NOTES = {}
ids = []
for a in sys.argv[1:]:
    if ':' in a:
        i, n = a.split(':', 1)
        NOTES[i] = n
        ids.append(i)
    else:
        ids.append(a)
rows = []
for sid in ids:
    src = f'/tmp/seeds/{sid}'
    dst = f'/verif/seeded/{sid}'
    log = open(f'{src}/verify.log').read() if os.path.exists(f'{src}/verify.log') else ''
    if 'demo_clean_exit=0' not in log or 'demo_patched_exit=1' not in log or ' passed' not in log:
        print('NOT VERIFIED', sid, log.replace('\n', ' ')[:200])
        continue
    os.makedirs(dst, exist_ok=True)
    patch = f'{src}/patch_on_head.diff' if os.path.exists(f'{src}/patch_on_head.diff') and os.path.getsize(f'{src}/patch_on_head.diff') > 0 else f'{src}/patch.diff'
    shutil.copy(patch, f'{dst}/patch.diff')
    shutil.copy(f'{src}/demo.py', f'{dst}/demo.py')
    meta = json.load(open(f'{src}/meta.json'))
    caught = re.findall(r'check_(C\d+)_exit=(\d)', log)
    kinds = re.findall(r'kind=(\S+)', log)
    head = re.search(r'head=(\w+)', log)
    meta_out = {
        'property': meta.get('property', sid[:3]),
        'summary': meta.get('summary'),
        'needs': meta.get('needs'),
        'files': meta.get('files'),
        'origin': 'independent sub-agent given only the property text and a scratch worktree',
        'verified_on_repo_head': head.group(1) if head else None,
        'what_was_run': [
            'git worktree add <scratch> HEAD; demo.py on the clean tree -> exit 0',
            'git apply patch.diff; demo.py -> exit 1',
            'pytest adsg_core/tests on the patched tree -> ' + (re.search(r'(\d+ passed[^\n]*)', log).group(1) if re.search(r'(\d+ passed[^\n]*)', log) else '?'),
            'VF_REPO=<scratch> python -m vf.run <check> --tier quick for: ' + ', '.join(f'{c} (exit {e})' for c, e in caught),
        ],
        'caught_by': [c for c, e in caught if e == '1'],
        'missed_by': [c for c, e in caught if e == '0'],
        'violation_kinds': sorted(set(kinds)),
        'note': NOTES.get(sid, ''),
    }
    json.dump(meta_out, open(f'{dst}/meta.json', 'w'), indent=1)
    rows.append(f"| {sid} | {meta_out['property']} | {(meta_out['summary'] or '')[:150].replace('|', '/')} | "
                f"{', '.join(meta_out['caught_by']) or '-'} ({', '.join(meta_out['violation_kinds'][:2])}) | {NOTES.get(sid, '')} |")
print('| seed | breaks | change | caught by (kind) | note |\n|---|---|---|---|---|')
print('\n'.join(rows))
