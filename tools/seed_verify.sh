#!/bin/bash
# usage: verify.sh SEEDID CHECK1 [CHECK2 ...]
ID=$1; shift
S=/tmp/seeds/$ID; W=/tmp/ver/$ID
LOG=$S/verify.log; : > $LOG
mkdir -p /tmp/ver
git -C /repo worktree remove --force $W >/dev/null 2>&1
git -C /repo worktree add -q --detach $W HEAD || { echo "worktree failed" >> $LOG; exit 2; }
echo "head=$(git -C /repo rev-parse --short HEAD)" >> $LOG
cd $W
ADSG_REPO=$W PYTHONPATH=$W timeout 600 /venv/bin/python $S/demo.py > $S/demo_clean.out 2>&1; echo "demo_clean_exit=$?" >> $LOG
if git apply $S/patch.diff 2>/dev/null; then echo "applied=git-apply" >> $LOG
elif git apply --3way $S/patch.diff 2>/dev/null; then echo "applied=3way" >> $LOG
elif patch -p1 --fuzz=3 -s < $S/patch.diff; then echo "applied=patch-fuzz" >> $LOG
else echo "patch does not apply" >> $LOG; git -C /repo worktree remove --force $W; exit 2; fi
ADSG_REPO=$W PYTHONPATH=$W timeout 600 /venv/bin/python $S/demo.py > $S/demo_patched.out 2>&1; echo "demo_patched_exit=$?" >> $LOG
PYTHONPATH=$W XDG_CACHE_HOME=$(mktemp -d) timeout 900 /venv/bin/python -m pytest -q -p no:cacheprovider -W ignore adsg_core/tests 2>&1 | tail -1 >> $LOG
git diff > $S/patch_on_head.diff
cd /verif
for C in "$@"; do
  VF_REPO=$W VF_REPLAY_DIR=/tmp/ver/replays_$ID timeout 1800 /venv/bin/python -m vf.run $C --tier quick --no-evidence > $S/check_$C.out 2>&1; echo "check_${C}_exit=$?" >> $LOG
  grep -m3 "VIOLATION\|kind=" $S/check_$C.out >> $LOG
done
git -C /repo worktree remove --force $W
echo finished >> $LOG
