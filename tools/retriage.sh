#!/bin/bash
# re-run the violations of a vp run against the current /verif; print those that still violate
N=$1
cd /verif
grep "^VIOLATION" /root/.vp/runs/$N/log | sort -u | while read -r line; do
  prop=$(echo "$line" | sed 's/.*property=\(C[0-9]*\).*/\1/'); rp=$(echo "$line" | sed 's/.*replay=//')
  f=/root/.vp/runs/$N/verif/$rp
  [ -f "$f" ] || continue
  out=$(VF_REPLAY_DIR=/tmp/ver/retriage /venv/bin/python -m vf.run $prop --replay $f 2>&1 | grep -v KNOWN-FINDING)
  if echo "$out" | grep -q "^VIOLATION"; then echo "STILL $prop $f"; echo "$out" | grep -A2 "^VIOLATION" | tail -2 | cut -c1-300; fi
done
