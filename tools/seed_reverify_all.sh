#!/bin/bash
# re-verify every stored seeded change against the current checks (primary property check only)
cd /verif
for d in seeded/*/; do
  id=$(basename $d)
  prop=$(python3 -c "import json;print(json.load(open('/verif/seeded/$id/meta.json'))['property'])")
  checks=$(python3 -c "import json;m=json.load(open('/verif/seeded/$id/meta.json'));c=m.get('caught_by') or [m['property']];print(' '.join(c[:1]))")
  mkdir -p /tmp/seeds/$id
  cp /verif/seeded/$id/patch.diff /tmp/seeds/$id/patch.diff; rm -f /tmp/seeds/$id/patch_on_head.diff
  cp /verif/seeded/$id/demo.py /tmp/seeds/$id/demo.py
  bash /tmp/seeds/verify.sh $id $checks
  echo "$id $checks $(grep -c 'exit=1' /tmp/seeds/$id/verify.log) $(grep 'check_.*exit' /tmp/seeds/$id/verify.log | tr '\n' ' ')"
done
